/-
  C09 (second part) — decode ∘ encode ∘ decode is idempotent on EVERY datagram `rtcp.Unmarshal` accepts, not only on
  the encodings of well-formed packets, for the packet kinds listed in `covered`.

  The missing link between `C09.idem_on_wellformed` and arbitrary accepted inputs is the IMAGE of the decoders
  (Lemmas/Image.lean): what a decoder returns from a frame cut by `rtcp.Unmarshal` (32-bit aligned, at most 65536 words)
  is well-formed, or Marshal rejects it (C09 only speaks about the case where Marshal succeeds).

  COVERED (`covered`): SenderReport, ReceiverReport, SourceDescription, Goodbye, ApplicationDefined, TransportLayerNack,
    RapidResynchronizationRequest, PictureLossIndication, FullIntraRequest, RawPacket.
    Exact images (all proved in Lemmas/Image.lean):
      SR, RR, SDES   `WF` (needs the frame facts: extensions / chunk padding are "the rest of the frame");
                     for RR the extensions are already aligned, so the C02 quantisation is the identity (`quant_decoded`)
      BYE, RRR, PLI  `WF`, unconditionally (a decoded BYE holds ≤ 31 sources and a reason ≤ 255 octets: both marshal)
      NACK           `WF ∨ Marshal = err` (more than 253 pairs, i.e. a length field above 255, are rejected by Marshal)
      APP            `DecodedOK ∨ Marshal = err`: `WF` is too strong (stripped padding leaves unaligned data, Marshal pads
                     it again, Unmarshal strips it again); data above 65523 octets is rejected by Marshal
      FIR            `WF` (1..32766 entries)
  NOT COVERED here: REMB, TWCC, CCFB, XR (their round trips are handled elsewhere). SLI never occurs: through the
    datagram path PT 206/FMT 2 goes to the SLI decoder, which demands PT 205 (KF-SLI-PT), and PT 205/FMT 2 decodes as RAW
    (`sli_never_returned`).

  FINDING made while establishing the FIR image (repaired in the Go tree by commit 2796f0c, and with it NACK, SLI, APP):
    `FullIntraRequest.Unmarshal` computed `4*h.Length` in uint16. A frame with length field 16384 (65540 octets) was
    accepted with zero entries (`4*h.Length-firOffset <= 0` is false for 65528); Marshal of that packet succeeded with
    12 octets and length field 2, which Unmarshal rejected (errBadLength): decode-encode-decode was not idempotent.
    Go reproduction on the old tree: `b := make([]byte, 65540); b[0]=0x84; b[1]=206; b[2]=0x40; b[7]=1; b[11]=2`.
    With `length := 4 * int(h.Length)` a decoded FIR has at least one entry and the theorem needs no side condition.
-/
import Rtcp.Lemmas.Image
import Rtcp.Proofs.C09
namespace Rtcp.C09
open Rtcp Gen Out
set_option linter.unusedSimpArgs false
set_option linter.unusedVariables false

/-- the packet kinds for which idempotence on accepted datagrams is proved -/
def covered : List Kind := [.sr, .rr, .sdes, .bye, .app, .nack, .rrr, .pli, .fir, .raw]

/-- re-encoding `p` is stable: Marshal gives one frame, cut and dispatched back to the same Go type, which decodes to
(the quantisation of) `p`, and that re-marshals to the same octets -/
def Stable (p : Packet) : Prop :=
  ∃ f hd, p.encP = .ok (f, p) ∧ Framed2 f hd ∧ decKind (dispatch hd.type hd.count) f = .ok (C02.quant p) ∧
    (C02.quant p).encP = .ok (f, C02.quant p)

theorem decKind_kind {k : Kind} {f : Bytes} {p : Packet} (h : decKind k f = .ok p) : p.kind = k := by
  cases k <;> simp only [decKind] at h <;> obtain ⟨v, _, hp⟩ := map_eq_ok.mp h <;> rw [← hp] <;> rfl

theorem stable_of_DWF (p : Packet) (h : C02.DWF p) : Stable p := by
  obtain ⟨f, hd, he, hf, hdec, _⟩ := C02.frame_of_DWF p h
  exact ⟨f, hd, he, hf.framed2, hdec, C02.quant_encP p h f he⟩

theorem rawDec_eq_ok {f b : Bytes} (h : rawDec f = .ok b) : b = f := by
  unfold rawDec at h
  split at h
  · cases h
  · obtain ⟨_, _, h⟩ := bind_eq_ok.mp h
    simp at h; exact h.symm

theorem enc_of_encP_nack {v : TransportLayerNack} (h : ∃ f p', (Packet.nack v).encP = .ok (f, p')) : ∃ b, v.enc = .ok b := by
  obtain ⟨f, p', h⟩ := h; simp only [Packet.encP] at h; obtain ⟨b, hb, _⟩ := bind_eq_ok.mp h; exact ⟨b, hb⟩
theorem enc_of_encP_app {v : ApplicationDefined} (h : ∃ f p', (Packet.app v).encP = .ok (f, p')) : ∃ b, v.enc = .ok b := by
  obtain ⟨f, p', h⟩ := h; simp only [Packet.encP] at h; obtain ⟨b, hb, _⟩ := bind_eq_ok.mp h; exact ⟨b, hb⟩

/-! ### per kind: a packet decoded from a frame of an accepted datagram, if Marshal accepts it, is stable -/

theorem stable_sr {f : Bytes} {hd : Header} {v : SenderReport} (hf : Framed2 f hd) (h : SenderReport.dec f = .ok v) :
    Stable (.sr v) := by
  obtain ⟨_, h4, hmax⟩ := hf.facts
  obtain ⟨hwf, _⟩ := SenderReport.dec_image h h4 hmax
  obtain ⟨f2, he, hf2, hd2⟩ := SenderReport.reenc v hwf
  refine ⟨f2, v.header, by simp [Packet.encP, he], hf2, ?_, by simp [C02.quant, Packet.encP, he]⟩
  show decKind (dispatch TypeSenderReport _) f2 = _
  simp [dispatch, decKind, hd2, C02.quant]

theorem stable_rr {f : Bytes} {hd : Header} {v : ReceiverReport} (hf : Framed2 f hd) (h : ReceiverReport.dec f = .ok v) :
    Stable (.rr v) ∧ v.quant = v := by
  obtain ⟨_, h4, hmax⟩ := hf.facts
  obtain ⟨hwf, hal, _⟩ := ReceiverReport.dec_image h h4 hmax
  have hq := ReceiverReport.quant_of_aligned v hal
  obtain ⟨f2, he, hf2, hd2⟩ := ReceiverReport.reenc v hwf
  refine ⟨⟨f2, v.header, by simp [Packet.encP, he], hf2, ?_, by simp [C02.quant, hq, Packet.encP, he]⟩, hq⟩
  show decKind (dispatch TypeReceiverReport _) f2 = _
  simp [dispatch, decKind, hd2, C02.quant]

theorem stable_sdes {f : Bytes} {hd : Header} {v : SourceDescription} (hf : Framed2 f hd) (h : SourceDescription.dec f = .ok v) :
    Stable (.sdes v) := by
  obtain ⟨_, h4, hmax⟩ := hf.facts
  have hwf := SourceDescription.dec_image h h4 hmax
  obtain ⟨f2, he, hf2, hd2⟩ := SourceDescription.reenc v hwf
  refine ⟨f2, v.header, by simp [Packet.encP, he], hf2, ?_, by simp [C02.quant, Packet.encP, he]⟩
  show decKind (dispatch TypeSourceDescription _) f2 = _
  simp [dispatch, decKind, hd2, C02.quant]

theorem stable_app {f : Bytes} {v : ApplicationDefined} (h : ApplicationDefined.dec f = .ok v) (he : ∃ b, v.enc = .ok b) :
    Stable (.app v) := by
  rcases ApplicationDefined.dec_image h with hok | herr
  · obtain ⟨f2, he2, hf2, hd2⟩ := ApplicationDefined.reenc v hok
    refine ⟨f2, v.hdr, by simp [Packet.encP, he2], hf2, ?_, by simp [C02.quant, Packet.encP, he2]⟩
    show decKind (dispatch TypeApplicationDefined _) f2 = _
    simp [dispatch, decKind, hd2, C02.quant]
  · obtain ⟨b, hb⟩ := he; rw [herr] at hb; cases hb

theorem stable_nack {f : Bytes} {v : TransportLayerNack} (h : TransportLayerNack.dec f = .ok v) (he : ∃ b, v.enc = .ok b) :
    Stable (.nack v) := by
  rcases TransportLayerNack.dec_image h with hok | herr
  · exact stable_of_DWF _ (.nack v hok)
  · obtain ⟨b, hb⟩ := he; rw [herr] at hb; cases hb

/-- **image theorem at packet level**: a packet of a covered kind that the datagram decoder returned from a frame, and
that Marshal accepts, is stable; and the C02 quantisation does not change it -/
theorem stable_of_decoded {f : Bytes} {hd : Header} {p : Packet} (hf : Framed2 f hd)
    (hdec : decKind (dispatch hd.type hd.count) f = .ok p) (hcov : p.kind ∈ covered)
    (henc : ∃ f' p', p.encP = .ok (f', p')) : Stable p ∧ C02.quant p = p := by
  have hk := decKind_kind hdec
  rw [← hk] at hdec
  cases p with
  | sr v =>
    simp only [Packet.kind, decKind] at hdec
    obtain ⟨v', hv, hp⟩ := map_eq_ok.mp hdec
    cases hp
    exact ⟨stable_sr hf hv, rfl⟩
  | rr v =>
    simp only [Packet.kind, decKind] at hdec
    obtain ⟨v', hv, hp⟩ := map_eq_ok.mp hdec
    cases hp
    obtain ⟨h1, h2⟩ := stable_rr hf hv
    exact ⟨h1, by simp [C02.quant, h2]⟩
  | sdes v =>
    simp only [Packet.kind, decKind] at hdec
    obtain ⟨v', hv, hp⟩ := map_eq_ok.mp hdec
    cases hp
    exact ⟨stable_sdes hf hv, rfl⟩
  | bye v =>
    simp only [Packet.kind, decKind] at hdec
    obtain ⟨v', hv, hp⟩ := map_eq_ok.mp hdec
    cases hp
    exact ⟨stable_of_DWF _ (.bye v (Goodbye.dec_image hv)), rfl⟩
  | app v =>
    simp only [Packet.kind, decKind] at hdec
    obtain ⟨v', hv, hp⟩ := map_eq_ok.mp hdec
    cases hp
    exact ⟨stable_app hv (enc_of_encP_app henc), rfl⟩
  | nack v =>
    simp only [Packet.kind, decKind] at hdec
    obtain ⟨v', hv, hp⟩ := map_eq_ok.mp hdec
    cases hp
    exact ⟨stable_nack hv (enc_of_encP_nack henc), rfl⟩
  | rrr v =>
    simp only [Packet.kind, decKind] at hdec
    obtain ⟨v', hv, hp⟩ := map_eq_ok.mp hdec
    cases hp
    exact ⟨stable_of_DWF _ (.rrr v (RapidResync.dec_image hv)), rfl⟩
  | pli v =>
    simp only [Packet.kind, decKind] at hdec
    obtain ⟨v', hv, hp⟩ := map_eq_ok.mp hdec
    cases hp
    exact ⟨stable_of_DWF _ (.pli v (PictureLossIndication.dec_image hv)), rfl⟩
  | fir v =>
    simp only [Packet.kind, decKind] at hdec
    obtain ⟨v', hv, hp⟩ := map_eq_ok.mp hdec
    cases hp
    exact ⟨stable_of_DWF _ (.fir v (FullIntraRequest.dec_image hv)), rfl⟩
  | raw b =>
    simp only [Packet.kind, decKind] at hdec
    obtain ⟨b', hv, hp⟩ := map_eq_ok.mp hdec
    cases hp
    have hb : b = f := rawDec_eq_ok hv
    subst hb
    simp only [Packet.kind] at hk
    refine ⟨⟨b, hd, rfl, hf, ?_, rfl⟩, rfl⟩
    rw [← hk]
    simp only [decKind, hv]
    rfl
  | twcc v => simp [covered, Packet.kind] at hcov
  | ccfb v => simp [covered, Packet.kind] at hcov
  | sli v => simp [covered, Packet.kind] at hcov
  | remb v => simp [covered, Packet.kind] at hcov
  | xr v => simp [covered, Packet.kind] at hcov

/-! ### lists -/

/-- every packet returned by the datagram loop was decoded from a frame: a slice that parses as a header `hd`,
is `hd.length + 1` words long, and went to the decoder selected by `hd` -/
theorem loop_packets_framed (gas : Nat) (b : Bytes) (ps : List Packet) (h : unmarshalLoop gas b = .ok ps) :
    ∀ p ∈ ps, ∃ f hd, Framed2 f hd ∧ decKind (dispatch hd.type hd.count) f = .ok p := by
  induction gas generalizing b ps with
  | zero => simp [unmarshalLoop] at h
  | succ g ih =>
    unfold unmarshalLoop at h
    split at h
    · simp at h; rw [h]; simp
    · obtain ⟨⟨p, n⟩, hp, h⟩ := bind_eq_ok.mp h
      dsimp only at h
      obtain ⟨rest, hr, h⟩ := bind_eq_ok.mp h
      obtain ⟨qs, hq, h⟩ := bind_eq_ok.mp h
      simp at h
      rw [← h]
      intro x hx
      rcases List.mem_cons.mp hx with hx | hx
      · rw [hx]
        unfold unmarshalOne at hp
        obtain ⟨hd, hhd, hp⟩ := bind_eq_ok.mp hp
        dsimp only at hp
        split at hp
        · cases hp
        · rename_i hle
          obtain ⟨inp, hinp, hp⟩ := bind_eq_ok.mp hp
          obtain ⟨q, hq', hp⟩ := bind_eq_ok.mp hp
          simp at hp
          obtain ⟨_, _, hie, hil⟩ := slice_eq_ok hinp
          rw [List.drop_zero] at hie
          refine ⟨inp, hd, ⟨?_, by rw [hil]; omega⟩, by rw [← hp.1]; exact hq'⟩
          rw [hie, Header.dec_take b _ (by omega) (by omega)]
          exact hhd
      · exact ih rest qs hq x hx

theorem encP_of_uencP (ps : List Packet) (b : Bytes) (qs : List Packet) (h : uencP ps = .ok (b, qs)) :
    ∀ p ∈ ps, ∃ f p', p.encP = .ok (f, p') := by
  induction ps generalizing b qs with
  | nil => simp
  | cons p ps ih =>
    simp only [uencP] at h
    obtain ⟨⟨a, p'⟩, hp, h⟩ := bind_eq_ok.mp h
    obtain ⟨⟨r, ps'⟩, hr, h⟩ := bind_eq_ok.mp h
    intro x hx
    rcases List.mem_cons.mp hx with hx | hx
    · rw [hx]; exact ⟨a, p', hp⟩
    · exact ih r ps' hr x hx

/-- a list of stable packets: Marshal concatenates the frames, Unmarshal reads the (quantised) list back, and
re-marshalling that gives the same octets -/
theorem list_stable (ps : List Packet) (h : ∀ p ∈ ps, Stable p) :
    ∃ b, uencP ps = .ok (b, ps) ∧ ps.length * 4 ≤ b.length ∧
      (∀ gas, ps.length < gas → unmarshalLoop gas b = .ok (ps.map C02.quant)) ∧
      uencP (ps.map C02.quant) = .ok (b, ps.map C02.quant) := by
  induction ps with
  | nil =>
    refine ⟨[], rfl, by simp, ?_, rfl⟩
    intro gas hg
    cases gas with
    | zero => omega
    | succ g => simp [unmarshalLoop]
  | cons p ps ih =>
    obtain ⟨b, hb, hlen, hloop, hre⟩ := ih (fun q hq => h q (by simp [hq]))
    obtain ⟨f, hd, he, hf, hdec, hq⟩ := h p (by simp)
    have hf4 := hf.facts.1
    refine ⟨f ++ b, by simp [uencP, he, hb], by simp; omega, ?_, by simp [uencP, hq, hre]⟩
    intro gas hg
    cases gas with
    | zero => omega
    | succ g =>
      rw [unmarshalLoop_cons2 f b hd hf g, hdec, bind_ok, hloop g (by simp at hg; omega), bind_ok]
      rfl

/-- **HEADLINE — idempotence on accepted datagrams.** For every datagram `b` accepted by `rtcp.Unmarshal` whose packets
are of the covered kinds: whenever `rtcp.Marshal` of the returned packets succeeds with `b2`, `b2` is accepted again,
decodes to an equal packet list (`C02.quant` is the RR extension padding, the identity here: `quant_decoded`), and that
list marshals to `b2` again.

`_partial`: the full C09 statement quantifies over all kinds; REMB / TWCC / CCFB / XR are outside `covered`
(what is missing for them is the image + round trip of their decoders, nothing at the list level: `list_stable` and
`loop_packets_framed` are kind-agnostic, one `Stable` proof per further kind extends the theorem). -/
theorem idem_accepted_partial (b : Bytes) (ps : List Packet) (b2 : Bytes) (h : udec b = .ok ps)
    (hk : ∀ p ∈ ps, p.kind ∈ covered) (he : uenc ps = .ok b2) :
    ∃ ps2, udec b2 = .ok ps2 ∧ ps2 = ps.map C02.quant ∧ uenc ps2 = .ok b2 := by
  unfold udec at h
  obtain ⟨qs, hq, h⟩ := bind_eq_ok.mp h
  split at h
  · cases h
  · rename_i hne
    simp at h
    subst h
    unfold uenc at he
    obtain ⟨⟨b2', ps'⟩, hu, he⟩ := bind_eq_ok.mp he
    simp at he
    subst he
    have henc := encP_of_uencP qs b2' ps' hu
    have hst : ∀ p ∈ qs, Stable p := by
      intro p hp
      obtain ⟨f, hd, hf, hdec⟩ := loop_packets_framed _ _ _ hq p hp
      exact (stable_of_decoded hf hdec (hk p hp) (henc p hp)).1
    obtain ⟨b3, hb3, hlen, hloop, hre⟩ := list_stable qs hst
    rw [hb3] at hu
    simp at hu
    obtain ⟨hu1, hu2⟩ := hu
    subst hu1
    refine ⟨qs.map C02.quant, ?_, rfl, by simp [uenc, hre]⟩
    unfold udec
    rw [hloop (b3.length + 1) (by omega), bind_ok]
    rw [if_neg (by simpa using hne)]
    rfl

/-- on decoded lists the quantisation is the identity: decoded RR extensions are already 32-bit aligned -/
theorem quant_decoded (b : Bytes) (ps : List Packet) (b2 : Bytes) (h : udec b = .ok ps)
    (hk : ∀ p ∈ ps, p.kind ∈ covered) (he : uenc ps = .ok b2) : ps.map C02.quant = ps := by
  unfold udec at h
  obtain ⟨qs, hq, h⟩ := bind_eq_ok.mp h
  split at h
  · cases h
  · simp at h
    subst h
    unfold uenc at he
    obtain ⟨⟨b2', ps'⟩, hu, he⟩ := bind_eq_ok.mp he
    have henc := encP_of_uencP qs b2' ps' hu
    have : ∀ p ∈ qs, C02.quant p = p := by
      intro p hp
      obtain ⟨f, hd, hf, hdec⟩ := loop_packets_framed _ _ _ hq p hp
      exact (stable_of_decoded hf hdec (hk p hp) (henc p hp)).2
    calc qs.map C02.quant = qs.map id := List.map_congr_left this
      _ = qs := by simp

/-- the same with the decoded list itself: **Unmarshal ∘ Marshal ∘ Unmarshal = Unmarshal**, and Marshal of the second
decoding reproduces the octets -/
theorem idem_accepted (b : Bytes) (ps : List Packet) (b2 : Bytes) (h : udec b = .ok ps)
    (hk : ∀ p ∈ ps, p.kind ∈ covered) (he : uenc ps = .ok b2) :
    udec b2 = .ok ps ∧ uenc ps = .ok b2 := by
  obtain ⟨ps2, h1, h2, _⟩ := idem_accepted_partial b ps b2 h hk he
  rw [quant_decoded b ps b2 h hk he] at h2
  subst h2
  exact ⟨h1, he⟩

/-! ### SLI is never returned by `rtcp.Unmarshal` (KF-SLI-PT), so leaving it out of `covered` loses nothing -/

theorem dispatch_sli {t c : Nat} (h : dispatch t c = .sli) : t = TypePayloadSpecificFeedback := by
  unfold dispatch at h
  repeat' split at h
  all_goals first | assumption | cases h

theorem sli_never_returned (b : Bytes) (ps : List Packet) (h : udec b = .ok ps) : ∀ p ∈ ps, p.kind ≠ .sli := by
  unfold udec at h
  obtain ⟨qs, hq, h⟩ := bind_eq_ok.mp h
  split at h
  · cases h
  · simp at h
    subst h
    intro p hp hs
    obtain ⟨f, hd, hf, hdec⟩ := loop_packets_framed _ _ _ hq p hp
    have hk := decKind_kind hdec
    rw [hs] at hk
    have ht := dispatch_sli hk.symm
    rw [← hk] at hdec
    simp only [decKind] at hdec
    obtain ⟨v, hv, _⟩ := map_eq_ok.mp hdec
    unfold SliceLossIndication.dec at hv
    split at hv
    · cases hv
    · rw [hf.1, bind_ok] at hv
      dsimp only at hv
      split at hv
      · cases hv
      · rw [if_pos (Or.inl (by rw [ht]; decide))] at hv
        cases hv

/-! ### non-vacuity: a non-canonical accepted datagram meets the hypotheses of the headline theorem -/

/-- RR with one report block; SDES whose chunk padding holds garbage (7,7,7: never inspected by Unmarshal);
APP with the padding bit, one padding octet and therefore three data octets -/
def exDatagram : Bytes :=
  [129, 201, 0, 7,  0, 0, 0, 1,  0, 0, 0, 2,  5,  0, 0, 9,  0, 0, 0, 3,  0, 0, 0, 4,  0, 0, 0, 5,  0, 0, 0, 6,
   129, 202, 0, 3,  0, 0, 0, 1,  1, 2, 97, 98,  0, 7, 7, 7,
   163, 204, 0, 3,  0, 0, 0, 9,  110, 97, 109, 101,  120, 121, 122, 1]
def exPackets : List Packet :=
  [.rr { ssrc := 1, reports := [{ ssrc := 2, fractionLost := 5, totalLost := 9, lastSeq := 3, jitter := 4, lastSR := 5, delay := 6 }] },
   .sdes { chunks := [{ source := 1, items := [{ type := 1, text := [97, 98] }] }] },
   .app { subType := 3, ssrc := 9, name := [110, 97, 109, 101], data := [120, 121, 122] }]
/-- what Marshal gives back: the SDES padding is zeroed, everything else is unchanged -/
def exReenc : Bytes :=
  [129, 201, 0, 7,  0, 0, 0, 1,  0, 0, 0, 2,  5,  0, 0, 9,  0, 0, 0, 3,  0, 0, 0, 4,  0, 0, 0, 5,  0, 0, 0, 6,
   129, 202, 0, 3,  0, 0, 0, 1,  1, 2, 97, 98,  0, 0, 0, 0,
   163, 204, 0, 3,  0, 0, 0, 9,  110, 97, 109, 101,  120, 121, 122, 1]

example : udec exDatagram = .ok exPackets := by decide
example : ∀ p ∈ exPackets, p.kind ∈ covered := by decide
example : uenc exPackets = .ok exReenc := by decide
/-- the input is not canonical (it is not what Marshal emits), and the decoded APP is outside `C02.DWF`
(its data is not 32-bit aligned), so `C09.idem_on_wellformed` does not apply to it -/
example : exReenc ≠ exDatagram ∧
    ¬ ApplicationDefined.WF { subType := 3, ssrc := 9, name := [110, 97, 109, 101], data := [120, 121, 122] } := by decide
/-- the theorem applied -/
example : udec exReenc = .ok exPackets ∧ uenc exPackets = .ok exReenc :=
  idem_accepted exDatagram exPackets exReenc (by decide) (by decide) (by decide)

end Rtcp.C09
