import Rtcp.Lemmas.Safe6
namespace Rtcp.C07
end Rtcp.C07
