/-
  C07 — packets are dispatched to the right Go type; decoders reject foreign types.
-/
import Rtcp.Lemmas.Safe6
namespace Rtcp.C07
open Rtcp Gen Out
set_option linter.unusedSimpArgs false
set_option linter.unusedVariables false

/-- the registration table of the property, written from its text -/
def specTable (pt fmt : Nat) : Kind :=
  match pt, fmt with
  | 200, _ => .sr | 201, _ => .rr | 202, _ => .sdes | 203, _ => .bye | 204, _ => .app
  | 205, 1 => .nack | 205, 5 => .rrr | 205, 11 => .ccfb | 205, 15 => .twcc
  | 206, 1 => .pli | 206, 2 => .sli | 206, 4 => .fir | 206, 15 => .remb
  | 207, _ => .xr
  | _, _ => .raw

/-- the dispatch switch is the table: all 256 packet types × 32 count/FMT values -/
theorem dispatch_table : ∀ pt < 256, ∀ fmt < 32, dispatch pt fmt = specTable pt fmt := by decide +kernel

/-- the packet returned for a frame has the Go type the table assigns to the frame's header -/
theorem frame_kind {b : Bytes} {p : Packet} {n : Nat} (e : unmarshalOne b = .ok (p, n)) :
    p.kind = specTable (get8 b 1) (get8 b 0 % 32) := by
  unfold unmarshalOne at e
  obtain ⟨h, hh, e⟩ := bind_eq_ok.mp e
  have hf := Header.dec_ok_fields hh
  dsimp only at e
  split at e
  · cases e
  · rename_i hle
    rw [slice_of_le (by omega) (by omega)] at e
    simp only [bind_ok] at e
    obtain ⟨q, hq, e⟩ := bind_eq_ok.mp e
    simp at e
    rw [← e.1, ← hf.2.2.2.2.1, ← hf.2.2.2.2.2, ← dispatch_table h.type hf.2.1 h.count hf.1]
    generalize dispatch h.type h.count = k at hq
    cases k <;> simp only [decKind] at hq <;> obtain ⟨v, _, hv⟩ := map_eq_ok.mp hq <;> rw [← hv] <;> rfl

/-- every combination outside the table is returned as a RawPacket holding the frame's octets verbatim -/
theorem raw_verbatim {b : Bytes} {p : Packet} {n : Nat} (e : unmarshalOne b = .ok (p, n))
    (hk : specTable (get8 b 1) (get8 b 0 % 32) = .raw) : p = .raw (b.take n) := by
  have hkind := frame_kind e
  unfold unmarshalOne at e
  obtain ⟨h, hh, e⟩ := bind_eq_ok.mp e
  have hf := Header.dec_ok_fields hh
  dsimp only at e
  split at e
  · cases e
  · rename_i hle
    rw [slice_of_le (by omega) (by omega)] at e
    simp only [bind_ok] at e
    obtain ⟨q, hq, e⟩ := bind_eq_ok.mp e
    simp at e
    have hd : dispatch h.type h.count = .raw := by
      rw [dispatch_table h.type hf.2.1 h.count hf.1, hf.2.2.2.2.1, hf.2.2.2.2.2]; exact hk
    rw [hd] at hq
    simp only [decKind] at hq
    obtain ⟨v, hv, hvq⟩ := map_eq_ok.mp hq
    unfold rawDec at hv
    split at hv
    · cases hv
    · obtain ⟨_, _, hv⟩ := bind_eq_ok.mp hv
      simp at hv
      rw [← e.1, ← hvq, ← hv, ← e.2]
      try simp

/-! ### decoders reject foreign types: the type guard at the head of every decoder -/

/-- header octets of a well-framed packet -/
def hdrPT (b : Bytes) : Nat := get8 b 1
def hdrFmt (b : Bytes) : Nat := get8 b 0 % 32

theorem sr_rejects (b : Bytes) (h : hdrPT b ≠ 200) : ∀ v, SenderReport.dec b ≠ .ok v := by
  intro v e
  unfold SenderReport.dec at e
  split at e
  · cases e
  · obtain ⟨hd, hh, e⟩ := bind_eq_ok.mp e
    have hf := Header.dec_ok_fields hh
    split at e
    · cases e
    · rename_i ht; simp at ht; exact h (by unfold hdrPT; omega)

theorem rr_rejects (b : Bytes) (h : hdrPT b ≠ 201) : ∀ v, ReceiverReport.dec b ≠ .ok v := by
  intro v e
  unfold ReceiverReport.dec at e
  split at e
  · cases e
  · obtain ⟨hd, hh, e⟩ := bind_eq_ok.mp e
    have hf := Header.dec_ok_fields hh
    split at e
    · cases e
    · rename_i ht; simp at ht; exact h (by unfold hdrPT; omega)

theorem bye_rejects (b : Bytes) (h : hdrPT b ≠ 203) : ∀ v, Goodbye.dec b ≠ .ok v := by
  intro v e
  unfold Goodbye.dec at e
  obtain ⟨hd, hh, e⟩ := bind_eq_ok.mp e
  have hf := Header.dec_ok_fields hh
  split at e
  · cases e
  · rename_i ht; simp at ht; exact h (by unfold hdrPT; omega)

theorem app_rejects (b : Bytes) (h : hdrPT b ≠ 204) : ∀ v, ApplicationDefined.dec b ≠ .ok v := by
  intro v e
  unfold ApplicationDefined.dec at e
  obtain ⟨hd, hh, e⟩ := bind_eq_ok.mp e
  have hf := Header.dec_ok_fields hh
  split at e
  · cases e
  · rename_i ht; simp at ht; exact h (by unfold hdrPT; omega)

theorem pli_rejects (b : Bytes) (h : hdrPT b ≠ 206 ∨ hdrFmt b ≠ 1) : ∀ v, PictureLossIndication.dec b ≠ .ok v := by
  intro v e
  unfold PictureLossIndication.dec at e
  split at e
  · cases e
  · obtain ⟨hd, hh, e⟩ := bind_eq_ok.mp e
    have hf := Header.dec_ok_fields hh
    split at e
    · cases e
    · rename_i ht; simp at ht; unfold hdrPT hdrFmt at h; omega

theorem rrr_rejects (b : Bytes) (h : hdrPT b ≠ 205 ∨ hdrFmt b ≠ 5) : ∀ v, RapidResync.dec b ≠ .ok v := by
  intro v e
  unfold RapidResync.dec at e
  split at e
  · cases e
  · obtain ⟨hd, hh, e⟩ := bind_eq_ok.mp e
    have hf := Header.dec_ok_fields hh
    split at e
    · cases e
    · rename_i ht; simp at ht; unfold hdrPT hdrFmt at h; omega

theorem nack_rejects (b : Bytes) (h : hdrPT b ≠ 205 ∨ hdrFmt b ≠ 1) : ∀ v, TransportLayerNack.dec b ≠ .ok v := by
  intro v e
  unfold TransportLayerNack.dec at e
  split at e
  · cases e
  · obtain ⟨hd, hh, e⟩ := bind_eq_ok.mp e
    have hf := Header.dec_ok_fields hh
    dsimp only at e
    split at e
    · cases e
    · split at e
      · cases e
      · rename_i ht; simp at ht; unfold hdrPT hdrFmt at h; omega

theorem fir_rejects (b : Bytes) (h : hdrPT b ≠ 206 ∨ hdrFmt b ≠ 4) : ∀ v, FullIntraRequest.dec b ≠ .ok v := by
  intro v e
  unfold FullIntraRequest.dec at e
  split at e
  · cases e
  · obtain ⟨hd, hh, e⟩ := bind_eq_ok.mp e
    have hf := Header.dec_ok_fields hh
    dsimp only at e
    split at e
    · cases e
    · split at e
      · cases e
      · rename_i ht; simp at ht; unfold hdrPT hdrFmt at h; omega

theorem remb_rejects (b : Bytes) (h : hdrPT b ≠ 206 ∨ hdrFmt b ≠ 15) : ∀ v, Remb.dec b ≠ .ok v := by
  intro v e
  unfold Remb.dec at e
  split at e
  · cases e
  · rename_i hl
    rw [u8At_of_lt (by lomega)] at e
    simp only [bind_ok] at e
    split at e
    · cases e
    · split at e
      · cases e
      · split at e
        · cases e
        · rename_i h15
          rw [u8At_of_lt (by lomega)] at e
          simp only [bind_ok] at e
          split at e
          · cases e
          · rename_i h206; simp at h15 h206; unfold hdrPT hdrFmt at h; omega

theorem xr_rejects (b : Bytes) (h : hdrPT b ≠ 207) : ∀ v, XR.dec b ≠ .ok v := by
  intro v e
  have hst := (Status.toOut_eq_ok e).1
  unfold XR.decP at hst
  cases hh : Header.dec b with
  | ok hd =>
    have hf := Header.dec_ok_fields hh
    simp only [hh] at hst
    split at hst
    · simp at hst
    · rename_i ht; simp at ht; exact h (by unfold hdrPT; omega)
  | err => simp [hh, Out.status] at hst
  | panic => simp [hh, Out.status] at hst
  | diverge => simp [hh, Out.status] at hst

theorem sdes_rejects (b : Bytes) (h : hdrPT b ≠ 202) : ∀ v, SourceDescription.dec b ≠ .ok v := by
  intro v e
  have hst := (Status.toOut_eq_ok e).1
  unfold SourceDescription.decP at hst
  cases hh : Header.dec b with
  | ok hd =>
    have hf := Header.dec_ok_fields hh
    simp only [hh] at hst
    split at hst
    · simp at hst
    · rename_i ht; simp at ht; exact h (by unfold hdrPT; omega)
  | err => simp [hh, Out.status] at hst
  | panic => simp [hh, Out.status] at hst
  | diverge => simp [hh, Out.status] at hst

theorem twcc_rejects (b : Bytes) (h : hdrPT b ≠ 205 ∨ hdrFmt b ≠ 15) : ∀ v, Twcc.dec b ≠ .ok v := by
  intro v e
  have hst := (Status.toOut_eq_ok e).1
  unfold Twcc.decP at hst
  split at hst
  · simp at hst
  all_goals cases hh : Header.dec b with
  | ok hd =>
    have hf := Header.dec_ok_fields hh
    simp only [hh] at hst
    split at hst
    · simp at hst
    · split at hst
      · simp at hst
      · split at hst
        · simp at hst
        · rename_i ht; simp at ht; unfold hdrPT hdrFmt at h; omega
  | err => simp [hh, Out.status] at hst
  | panic => simp [hh, Out.status] at hst
  | diverge => simp [hh, Out.status] at hst

/-- the CCFB decoder checks the packet type (its FMT is not checked on the pinned tree: known finding KF-CCFB-FMT) -/
theorem ccfb_rejects_partial (b : Bytes) (h : hdrPT b ≠ 205) : ∀ v, Ccfb.dec b ≠ .ok v := by
  intro v e
  have hst := (Status.toOut_eq_ok e).1
  unfold Ccfb.decP at hst
  split at hst
  · simp at hst
  all_goals cases hh : Header.dec b with
  | ok hd =>
    have hf := Header.dec_ok_fields hh
    simp only [hh] at hst
    split at hst
    · simp at hst
    · rename_i ht; simp at ht; exact h (by unfold hdrPT; omega)
  | err => simp [hh, Out.status] at hst
  | panic => simp [hh, Out.status] at hst
  | diverge => simp [hh, Out.status] at hst

/-- SLI's own decoder demands 205/2 (the table dispatches 206/2 to it: known finding KF-SLI-PT) -/
theorem sli_rejects_partial (b : Bytes) (h : hdrPT b ≠ 205 ∨ hdrFmt b ≠ 2) : ∀ v, SliceLossIndication.dec b ≠ .ok v := by
  intro v e
  unfold SliceLossIndication.dec at e
  split at e
  · cases e
  · obtain ⟨hd, hh, e⟩ := bind_eq_ok.mp e
    have hf := Header.dec_ok_fields hh
    dsimp only at e
    split at e
    · cases e
    · split at e
      · cases e
      · rename_i ht; simp at ht; unfold hdrPT hdrFmt at h; omega

example : specTable 205 15 = .twcc ∧ specTable 205 3 = .raw ∧ specTable 192 0 = .raw := by decide

end Rtcp.C07
