/-
  C11b — *which* text `CNAME()` returns.

  `C11.cname_ok_of_valid` shows that `CNAME()` succeeds on every valid compound. The property says more: it returns
  "the text of the first CNAME item". Here that is stated declaratively and proved:

  * `sdesFirstCNAME_iff` : the model's scan of one SDES returns `t` exactly when the items of all chunks, in wire
    order, split as `pre ++ it :: post` with no CNAME item in `pre`, `it` a CNAME item and `it.text = t`;
  * `cname_is_first`     : on a valid compound `p :: ps`, `ps` splits as receiver reports, then the SDES `s` that made
    the compound valid, then anything; and `CNAME()` returns exactly the first CNAME item's text of that `s`
    (later chunks, later SDES packets and whatever follows do not matter: `cname_ignores_rest`);
  * `cname_head_irrelevant` : the Go method does not look at `c[0]` (Validate does);
  * `cname_ok_does_not_imply_valid` : the converse of `cname_ok_of_valid` is false (CNAME() skips an SDES without a
    CNAME, Validate does not), which is why the statements are made under `cval … = .ok ()`.
-/
import Rtcp.Proofs.C11
namespace Rtcp.C11
open Rtcp Rtcp.Gen
set_option linter.unusedSimpArgs false
set_option linter.unusedVariables false

/-- the first CNAME item of an SDES in wire order, declaratively -/
def IsFirstCNAMEText (s : SourceDescription) (t : Bytes) : Prop :=
  ∃ pre it post, s.chunks.flatMap (·.items) = pre ++ it :: post ∧ (∀ x ∈ pre, x.type ≠ SDESCNAME) ∧
    it.type = SDESCNAME ∧ it.text = t

theorem sdesFirstCNAME_iff (s : SourceDescription) (t : Bytes) : sdesFirstCNAME s = some t ↔ IsFirstCNAMEText s t := by
  unfold sdesFirstCNAME IsFirstCNAMEText
  constructor
  · intro h
    rcases Option.map_eq_some_iff.mp h with ⟨it, hf, ht⟩
    rcases List.find?_eq_some_iff_append.mp hf with ⟨hp, pre, post, hsplit, hpre⟩
    refine ⟨pre, it, post, hsplit, ?_, by simpa using hp, ht⟩
    intro x hx
    simpa using hpre x hx
  · rintro ⟨pre, it, post, hsplit, hpre, hit, ht⟩
    apply Option.map_eq_some_iff.mpr
    refine ⟨it, ?_, ht⟩
    apply List.find?_eq_some_iff_append.mpr
    refine ⟨by simpa using hit, pre, post, hsplit, ?_⟩
    intro x hx
    simpa using hpre x hx

def isRR : Packet → Prop
  | .rr _ => True
  | _ => False

theorem cnameRest_first (ps : List Packet) (h : validateRest ps = .ok ()) :
    ∃ rrs s rest t, ps = rrs ++ .sdes s :: rest ∧ (∀ q ∈ rrs, isRR q) ∧ sdesHasCNAME s = true ∧
      sdesFirstCNAME s = some t ∧ cnameRest ps false = .ok t := by
  induction ps with
  | nil => simp [validateRest] at h
  | cons p ps ih =>
    cases p <;> simp only [validateRest] at h <;> try (cases h; done)
    case rr v =>
      obtain ⟨rrs, s, rest, t, hps, hrr, hc, hf, hcn⟩ := ih h
      refine ⟨.rr v :: rrs, s, rest, t, by simp [hps], ?_, hc, hf, by simpa [cnameRest] using hcn⟩
      intro q hq
      rcases List.mem_cons.mp hq with hq | hq
      · subst hq; trivial
      · exact hrr q hq
    case sdes s =>
      split at h
      · rename_i hc
        obtain ⟨t, ht⟩ := sdesFirstCNAME_some_of_has s hc
        exact ⟨[], s, ps, t, by simp, by simp, hc, ht, by simp [cnameRest, ht]⟩
      · cases h

/-- **CNAME() returns the text of the first CNAME item**: on a valid compound the packets after the first are
receiver reports, then an SDES `s` with a CNAME, then anything; the result is the text of the first item of type
CNAME among the items of `s` in wire order. -/
theorem cname_is_first (p : Packet) (ps : List Packet) (h : cval (p :: ps) = .ok ()) :
    ∃ rrs s rest t, ps = rrs ++ .sdes s :: rest ∧ (∀ q ∈ rrs, isRR q) ∧ IsFirstCNAMEText s t ∧
      ccname (p :: ps) = .ok t := by
  have hv : validateRest ps = .ok () := by
    cases p <;> simp only [cval] at h <;> first | exact h | cases h
  obtain ⟨rrs, s, rest, t, hps, hrr, _, hf, hcn⟩ := cnameRest_first ps hv
  exact ⟨rrs, s, rest, t, hps, hrr, (sdesFirstCNAME_iff s t).mp hf, by simpa [ccname] using hcn⟩

theorem cnameRest_rrs (rrs : List Packet) (hrr : ∀ q ∈ rrs, isRR q) (tl : List Packet) (bad : Bool) :
    cnameRest (rrs ++ tl) bad = cnameRest tl bad := by
  induction rrs with
  | nil => rfl
  | cons q rrs ih =>
    have hq := hrr q (by simp)
    have hrr' : ∀ x ∈ rrs, isRR x := fun x hx => hrr x (by simp [hx])
    cases q <;> simp only [isRR] at hq
    simpa [cnameRest] using ih hrr'

/-- what follows the deciding SDES (further chunks are inside `s`; further packets are `rest`) does not matter -/
theorem cname_ignores_rest (p : Packet) (rrs : List Packet) (s : SourceDescription) (rest rest' : List Packet)
    (hrr : ∀ q ∈ rrs, isRR q) (hc : sdesHasCNAME s = true) :
    ccname (p :: (rrs ++ .sdes s :: rest)) = ccname (p :: (rrs ++ .sdes s :: rest')) := by
  obtain ⟨t, ht⟩ := sdesFirstCNAME_some_of_has s hc
  simp only [ccname]
  rw [cnameRest_rrs rrs hrr, cnameRest_rrs rrs hrr]
  simp [cnameRest, ht]

/-- `CNAME()` does not look at the first packet -/
theorem cname_head_irrelevant (p q : Packet) (ps : List Packet) : ccname (p :: ps) = ccname (q :: ps) := rfl

/-- `CNAME()` is more permissive than `Validate`: it skips an SDES without a CNAME and finds one in a later SDES,
which `Validate` rejects. The property only speaks about valid compounds ("whenever Validate succeeds"), so this
is not a violation; it shows that the converse of `cname_ok_of_valid` is false and why `cname_is_first` is stated
under `cval … = .ok ()`. -/
theorem cname_ok_does_not_imply_valid :
    ∃ ps t, ccname ps = .ok t ∧ cval ps = .err :=
  ⟨[.rr {}, .sdes { chunks := [{ source := 1, items := [⟨2, [97]⟩] }] },
            .sdes { chunks := [{ source := 1, items := [⟨1, [98]⟩] }] }], [98], by decide, by decide⟩

/-- non-vacuity: two chunks with different CNAMEs, the first one's text is returned; a NAME item before it is skipped -/
example : ccname [.rr {}, .rr {}, .sdes { chunks := [{ source := 1, items := [⟨2, [120]⟩, ⟨1, [97]⟩] },
                                                    { source := 2, items := [⟨1, [98]⟩] }] }] = .ok [97] := by decide
example : IsFirstCNAMEText { chunks := [{ source := 1, items := [⟨2, [120]⟩, ⟨1, [97]⟩] }, { source := 2, items := [⟨1, [98]⟩] }] } [97] :=
  ⟨[⟨2, [120]⟩], ⟨1, [97]⟩, [⟨1, [98]⟩], by decide, by decide, by decide, rfl⟩

end Rtcp.C11
