import Rtcp.Lemmas.Safe6
namespace Rtcp.C11
end Rtcp.C11
