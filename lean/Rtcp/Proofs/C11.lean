/-
  C11 — CompoundPacket enforces the RFC 3550 compound rules exactly. All sequences, every length.
-/
import Rtcp.Lemmas.Safe6
namespace Rtcp.C11
open Rtcp Gen Out
set_option linter.unusedSimpArgs false
set_option linter.unusedVariables false

/-- the grammar of the property, written without looking at the code:
first packet SR or RR; then any number of RR; then an SDES that contains a CNAME item; then anything. -/
inductive ValidTail : List Packet → Prop
  | sdes (s : SourceDescription) (rest : List Packet) (h : ∃ c ∈ s.chunks, ∃ it ∈ c.items, it.type = 1) : ValidTail (.sdes s :: rest)
  | rr (r : ReceiverReport) (rest : List Packet) (h : ValidTail rest) : ValidTail (.rr r :: rest)

inductive ValidCompound : List Packet → Prop
  | sr (v : SenderReport) (rest : List Packet) (h : ValidTail rest) : ValidCompound (.sr v :: rest)
  | rr (v : ReceiverReport) (rest : List Packet) (h : ValidTail rest) : ValidCompound (.rr v :: rest)

theorem hasCNAME_iff (s : SourceDescription) : sdesHasCNAME s = true ↔ ∃ c ∈ s.chunks, ∃ it ∈ c.items, it.type = 1 := by
  simp [sdesHasCNAME, List.any_eq_true]

theorem validateRest_iff (ps : List Packet) : validateRest ps = .ok () ↔ ValidTail ps := by
  induction ps with
  | nil => simp [validateRest]; intro h; cases h
  | cons p ps ih =>
    cases p <;> simp only [validateRest]
    case rr v =>
      rw [ih]
      constructor
      · intro h; exact .rr v ps h
      · intro h; cases h; assumption
    case sdes s =>
      constructor
      · intro h
        split at h
        · rename_i hc; exact .sdes s ps ((hasCNAME_iff s).mp hc)
        · cases h
      · intro h
        cases h with
        | sdes _ _ hc => rw [if_pos ((hasCNAME_iff s).mpr hc)]
    all_goals (constructor <;> intro h <;> cases h)

/-- **Validate** succeeds exactly for the sequences of the grammar -/
theorem validate_iff (ps : List Packet) : cval ps = .ok () ↔ ValidCompound ps := by
  cases ps with
  | nil => simp [cval]; intro h; cases h
  | cons p ps =>
    cases p <;> simp only [cval]
    case sr v =>
      rw [validateRest_iff]
      constructor
      · intro h; exact .sr v ps h
      · intro h; cases h; assumption
    case rr v =>
      rw [validateRest_iff]
      constructor
      · intro h; exact .rr v ps h
      · intro h; cases h; assumption
    all_goals (constructor <;> intro h <;> cases h)

theorem cval_cases (ps : List Packet) : cval ps = .ok () ∨ cval ps = .err := by
  have hv : ∀ ps, validateRest ps = .ok () ∨ validateRest ps = .err := by
    intro ps
    induction ps with
    | nil => simp [validateRest]
    | cons p ps ih =>
      cases p <;> simp only [validateRest] <;> first | exact ih | (split <;> simp) | simp
  cases ps with
  | nil => simp [cval]
  | cons p ps => cases p <;> simp only [cval] <;> first | exact hv ps | simp

/-- **Marshal** succeeds exactly when Validate does and every member marshals -/
theorem cenc_iff (ps : List Packet) : (∃ b, cenc ps = .ok b) ↔ (cval ps = .ok () ∧ ∃ b, uenc ps = .ok b) := by
  unfold cenc
  rcases cval_cases ps with h | h <;> simp [h]

/-- **Unmarshal** succeeds exactly when the datagram's frames decode and the result validates -/
theorem cdec_iff (b : Bytes) (ps : List Packet) :
    cdec b = .ok ps ↔ (unmarshalLoop (b.length + 1) b = .ok ps ∧ cval ps = .ok ()) := by
  unfold cdec
  constructor
  · intro h
    obtain ⟨qs, hq, h⟩ := bind_eq_ok.mp h
    obtain ⟨_, hv, h⟩ := bind_eq_ok.mp h
    simp at h; subst h
    exact ⟨hq, hv⟩
  · rintro ⟨h1, h2⟩
    simp [h1, h2]

/-- a non-empty decodable datagram that validates is exactly what `rtcp.Unmarshal` returns -/
theorem cdec_udec (b : Bytes) (ps : List Packet) (h : cdec b = .ok ps) : udec b = .ok ps := by
  have ⟨h1, h2⟩ := (cdec_iff b ps).mp h
  unfold udec
  simp only [h1, bind_ok]
  have : ps.length ≠ 0 := by
    intro h0
    have : ps = [] := List.eq_nil_of_length_eq_zero h0
    subst this
    simp [cval] at h2
  simp [this]

/-- first CNAME text of the first SDES that has one, scanning `c[1:]` -/
def firstCNAME : List Packet → Option Bytes
  | [] => none
  | .sdes s :: ps => match sdesFirstCNAME s with
    | some t => some t
    | none => firstCNAME ps
  | _ :: ps => firstCNAME ps

theorem sdesFirstCNAME_some_of_has (s : SourceDescription) (h : sdesHasCNAME s = true) : ∃ t, sdesFirstCNAME s = some t := by
  simp only [sdesFirstCNAME]
  have : ∃ it, it ∈ s.chunks.flatMap (·.items) ∧ it.type = SDESCNAME := by
    obtain ⟨c, hc, it, hit, ht⟩ := (hasCNAME_iff s).mp h
    exact ⟨it, List.mem_flatMap.mpr ⟨c, hc, hit⟩, by simpa using ht⟩
  obtain ⟨it, hmem, ht⟩ := this
  have hne : (s.chunks.flatMap (·.items)).find? (·.type = SDESCNAME) ≠ none := by
    intro hn
    have := List.find?_eq_none.mp hn it hmem
    simp [ht] at this
  cases hf : (s.chunks.flatMap (·.items)).find? (·.type = SDESCNAME) with
  | none => exact absurd hf hne
  | some x => exact ⟨x.text, by simp⟩

/-- whenever Validate succeeds, **CNAME()** returns a text without error: the first CNAME item of the SDES
that made the compound valid -/
theorem cname_ok_of_valid (ps : List Packet) (h : cval ps = .ok ()) : ∃ t, ccname ps = .ok t := by
  have hr : ∀ ps, validateRest ps = .ok () → ∃ t, cnameRest ps false = .ok t := by
    intro ps
    induction ps with
    | nil => simp [validateRest]
    | cons p ps ih =>
      cases p <;> simp only [validateRest, cnameRest] <;> first | exact ih | (intro h; cases h) | skip
      intro hs
      split at hs
      · rename_i hc
        obtain ⟨t, ht⟩ := sdesFirstCNAME_some_of_has _ hc
        simp [ht]
      · cases hs
  cases ps with
  | nil => simp [cval] at h
  | cons p ps =>
    cases p <;> simp only [cval] at h <;> first | exact hr ps h | cases h

/-- **DestinationSSRC** is the first member's, **MarshalSize** the sum over all members -/
theorem cdst_first (p : Packet) (ps : List Packet) : cdst (p :: ps) = p.dest := rfl
theorem csize_sum (ps : List Packet) : csize ps = (ps.map Packet.marshalSize).sum := rfl
theorem csize_cons (p : Packet) (ps : List Packet) : csize (p :: ps) = p.marshalSize + csize ps := by simp [csize]

/-- non-vacuity: RR, RR, SDES(CNAME) is valid; RR, SDES(NAME), SDES(CNAME) is not -/
example : cval [.rr {}, .rr {}, .sdes { chunks := [{ source := 1, items := [⟨1, [97]⟩] }] }] = .ok () := by decide
example : cval [.rr {}, .sdes { chunks := [{ source := 1, items := [⟨2, [97]⟩] }] },
                .sdes { chunks := [{ source := 1, items := [⟨1, [97]⟩] }] }] = .err := by decide

end Rtcp.C11
