/-
  C05d — "whenever Marshal succeeds": size, alignment and header WITHOUT a well-formedness premise.

  The `*_framed` theorems (Proofs/C05.lean, Remb.lean, Ccfb.lean, Twcc.lean, XRWire.lean) assume `v.WF`. The property says
  "whenever Marshal succeeds". Here the only hypothesis is that the model's encoder returned `ok`; the guards of the encoders
  (split out of that hypothesis) supply every fact that is needed.

  Per kind K (all fifteen):  `K.enc_length : v.enc = .ok b → b.length = v.marshalSize`,
                             `K.enc_header : v.enc = .ok b → HdrIs b type count v.marshalSize`.
  Headline theorems:
    `enc_length_all`        every kind, TWCC and XR included, no premise at all
    `marshalSize_aligned`   the size functions are multiples of four (all values; XR, raw excluded)
    `enc_aligned_all`       output length % 4 = 0 (XR, raw excluded)
    `enc_header_all`        version 2, packet type, count/FMT, length field = uint16(len/4 − 1) (TWCC, raw excluded);
                            `enc_length_field_all`, `enc_length_field_fit` are its corollaries; neither the fit nor the
                            alignment hypothesis is needed for the length field
    `Twcc.enc_header_caller`, `twcc_header`   TWCC: the header octets are the caller's; with a consistent header, as above
    `list_length_all`, `compound_length_all`, `list_aligned_all`   rtcp.Marshal / CompoundPacket.Marshal
  Outcome of the search for counterexamples to clause 1: none. No kind needs a premise for |output| = MarshalSize():
  for TWCC because `Marshal` allocates `MarshalSize()` octets and only copies into them (both computed in the same 16 bits).
  Witnesses that the exclusions are necessary: `XR.enc_aligned_needs_premise` (22 octets, length field says 20),
  `raw_enc_aligned_needs_premise`, `Twcc.enc_header_needs_premise` (zero Header: type 0, FMT 0, length 0 on the wire).
  Note `Packet.pktType (.sli _) = 205`: the library's SLI announces the transport-feedback type (recorded SLI finding).
-/
import Rtcp.Proofs.C03b
import Rtcp.Lemmas.Frame
import Rtcp.Lemmas.XRCodec
namespace Rtcp.C05
open Rtcp Gen Out
set_option linter.unusedSimpArgs false
set_option linter.unusedVariables false

/-- close an arithmetic side goal, unfolding the generated constants if needed -/
macro "csolve" : tactic => `(tactic| first | done | omega | (unfold_consts <;> (first | done | omega)))

/-! ## building blocks -/

theorem Header.enc_length {h : Header} {b : Bytes} (e : h.enc = .ok b) : b.length = 4 := by
  unfold Header.enc at e
  split at e
  · cases e
  · cases e; rfl

theorem ReceptionReport.enc_length {r : ReceptionReport} {b : Bytes} (e : r.enc = .ok b) : b.length = 24 := by
  unfold ReceptionReport.enc at e
  split at e
  · cases e
  · cases e; rfl

theorem encReports_length (l : List ReceptionReport) (b : Bytes) (e : encReports l = .ok b) : b.length = l.length * 24 := by
  induction l generalizing b with
  | nil => cases e; rfl
  | cons r rs ih =>
    unfold encReports at e
    obtain ⟨a, ha, e⟩ := bind_eq_ok.mp e
    obtain ⟨rest, hr, e⟩ := bind_eq_ok.mp e
    cases e
    have := ReceptionReport.enc_length ha
    have := ih rest hr
    simp only [List.length_append, List.length_cons]; omega

/-! ## SR / RR -/

theorem SenderReport.enc_length (v : SenderReport) (b : Bytes) (h : v.enc = .ok b) : b.length = v.marshalSize := by
  unfold SenderReport.enc at h
  obtain ⟨reps, hr, h⟩ := bind_eq_ok.mp h
  split at h
  · cases h
  · obtain ⟨hd, hh, h⟩ := bind_eq_ok.mp h
    cases h
    have h1 := encReports_length _ _ hr
    have h2 := Header.enc_length hh
    simp only [SenderReport.marshalSize, List.length_append, be32_length, be64_length, zeros_length, h1, h2] <;> csolve

theorem ReceiverReport.enc_length (v : ReceiverReport) (b : Bytes) (h : v.enc = .ok b) : b.length = v.marshalSize := by
  unfold ReceiverReport.enc at h
  obtain ⟨reps, hr, h⟩ := bind_eq_ok.mp h
  split at h
  · cases h
  · obtain ⟨hd, hh, h⟩ := bind_eq_ok.mp h
    cases h
    have h1 := encReports_length _ _ hr
    have h2 := Header.enc_length hh
    simp only [ReceiverReport.marshalSize, List.length_append, be32_length, be64_length, zeros_length, h1, h2] <;> csolve

/-! ## SDES -/

theorem SDESItem.enc_length {i : SDESItem} {b : Bytes} (e : i.enc = .ok b) : b.length = i.len := by
  unfold SDESItem.enc at e
  split at e
  · cases e
  · split at e
    · cases e
    · cases e
      simp only [SDESItem.len, List.length_append, List.length_cons, List.length_nil] <;> csolve

theorem encItems_length (l : List SDESItem) (b : Bytes) (e : encItems l = .ok b) : b.length = itemsLen l := by
  induction l generalizing b with
  | nil => cases e; rfl
  | cons r rs ih =>
    unfold encItems at e
    obtain ⟨a, ha, e⟩ := bind_eq_ok.mp e
    obtain ⟨rest, hr, e⟩ := bind_eq_ok.mp e
    cases e
    have := SDESItem.enc_length ha
    have := ih rest hr
    simp only [itemsLen, List.map_cons, List.sum_cons, List.length_append] at * <;> omega

theorem SDESChunk.enc_length {c : SDESChunk} {b : Bytes} (e : c.enc = .ok b) : b.length = c.len := by
  unfold SDESChunk.enc at e
  obtain ⟨its, hi, e⟩ := bind_eq_ok.mp e
  cases e
  have := encItems_length _ _ hi
  simp only [SDESChunk.len, List.length_append, be32_length, zeros_length, List.length_cons, List.length_nil, this]

theorem encChunks_length (l : List SDESChunk) (b : Bytes) (e : encChunks l = .ok b) : b.length = chunksLen l := by
  induction l generalizing b with
  | nil => cases e; rfl
  | cons r rs ih =>
    unfold encChunks at e
    obtain ⟨a, ha, e⟩ := bind_eq_ok.mp e
    obtain ⟨rest, hr, e⟩ := bind_eq_ok.mp e
    cases e
    have := SDESChunk.enc_length ha
    have := ih rest hr
    simp only [chunksLen, List.map_cons, List.sum_cons, List.length_append] at * <;> omega

theorem SourceDescription.enc_length (v : SourceDescription) (b : Bytes) (h : v.enc = .ok b) : b.length = v.marshalSize := by
  unfold SourceDescription.enc at h
  obtain ⟨cs, hc, h⟩ := bind_eq_ok.mp h
  split at h
  · cases h
  · obtain ⟨hd, hh, h⟩ := bind_eq_ok.mp h
    cases h
    have h1 := encChunks_length _ _ hc
    have h2 := Header.enc_length hh
    simp only [SourceDescription.marshalSize, List.length_append, h1, h2] <;> csolve

/-! ## BYE -/

theorem Goodbye.enc_length (v : Goodbye) (b : Bytes) (h : v.enc = .ok b) : b.length = v.marshalSize := by
  unfold Goodbye.enc at h
  split at h
  · cases h
  · split at h
    · cases h
    · obtain ⟨hd, hh, h⟩ := bind_eq_ok.mp h
      cases h
      have h2 := Header.enc_length hh
      have h3 := encSSRCs_length v.sources
      simp only [List.length_append, zeros_length, h2, h3]
      unfold Goodbye.marshalSize
      by_cases hr : v.reason.length > 0
      · simp only [hr, if_true, List.length_append, List.length_cons, List.length_nil]; csolve
      · simp only [hr, if_false, List.length_nil]; csolve

/-! ## APP -/

theorem ApplicationDefined.enc_length (v : ApplicationDefined) (b : Bytes) (h : v.enc = .ok b) : b.length = v.marshalSize := by
  unfold ApplicationDefined.enc at h
  split at h
  · cases h
  · split at h
    · cases h
    · rename_i hn
      obtain ⟨hd, hh, h⟩ := bind_eq_ok.mp h
      cases h
      have h2 := Header.enc_length hh
      have hn' : v.name.length = 4 := by omega
      simp only [ApplicationDefined.marshalSize, List.length_append, List.length_replicate, be32_length, h2, hn'] <;> omega

/-! ## the fixed-layout feedback kinds -/

theorem PictureLossIndication.enc_length (v : PictureLossIndication) (b : Bytes) (h : v.enc = .ok b) : b.length = v.marshalSize := by
  unfold PictureLossIndication.enc at h
  obtain ⟨hd, hh, h⟩ := bind_eq_ok.mp h
  cases h
  simp only [PictureLossIndication.marshalSize, List.length_append, be32_length, Header.enc_length hh] <;> csolve

theorem RapidResync.enc_length (v : RapidResync) (b : Bytes) (h : v.enc = .ok b) : b.length = v.marshalSize := by
  unfold RapidResync.enc at h
  obtain ⟨hd, hh, h⟩ := bind_eq_ok.mp h
  cases h
  simp only [RapidResync.marshalSize, List.length_append, be32_length, Header.enc_length hh] <;> csolve

theorem TransportLayerNack.enc_length (v : TransportLayerNack) (b : Bytes) (h : v.enc = .ok b) : b.length = v.marshalSize := by
  unfold TransportLayerNack.enc at h
  split at h
  · cases h
  · obtain ⟨hd, hh, h⟩ := bind_eq_ok.mp h
    cases h
    simp only [TransportLayerNack.marshalSize, List.length_append, be32_length, Header.enc_length hh, encNacks_length] <;> csolve

theorem SliceLossIndication.enc_length (v : SliceLossIndication) (b : Bytes) (h : v.enc = .ok b) : b.length = v.marshalSize := by
  unfold SliceLossIndication.enc at h
  split at h
  · cases h
  · obtain ⟨hd, hh, h⟩ := bind_eq_ok.mp h
    cases h
    simp only [SliceLossIndication.marshalSize, List.length_append, be32_length, Header.enc_length hh, encSLIs_length] <;> csolve

theorem FullIntraRequest.enc_length (v : FullIntraRequest) (b : Bytes) (h : v.enc = .ok b) : b.length = v.marshalSize := by
  unfold FullIntraRequest.enc at h
  obtain ⟨hd, hh, h⟩ := bind_eq_ok.mp h
  cases h
  simp only [FullIntraRequest.marshalSize, List.length_append, be32_length, Header.enc_length hh, encFIRs_length] <;> csolve

/-! ## REMB -/

theorem Remb.enc_length (v : Remb) (b : Bytes) (h : v.enc = .ok b) : b.length = v.marshalSize := by
  unfold Remb.enc at h
  split at h
  · cases h
  · obtain ⟨⟨m, exp⟩, hm, h⟩ := bind_eq_ok.mp h
    cases h
    simp only [Remb.marshalSize, List.length_append, List.length_cons, List.length_nil, be32_length, be16_length, encSSRCList_length] <;> omega

/-! ## CCFB -/

theorem CcfbMetric.enc_length {m : CcfbMetric} {b : Bytes} (e : m.enc = .ok b) : b.length = 2 := by
  unfold CcfbMetric.enc at e
  obtain ⟨d0, _, e⟩ := bind_eq_ok.mp e
  obtain ⟨d1, _, e⟩ := bind_eq_ok.mp e
  obtain ⟨d2, _, e⟩ := bind_eq_ok.mp e
  cases e; rfl

theorem encMetrics_length (l : List CcfbMetric) (b : Bytes) (e : encMetrics l = .ok b) : b.length = 2 * l.length := by
  induction l generalizing b with
  | nil => cases e; rfl
  | cons r rs ih =>
    unfold encMetrics at e
    obtain ⟨a, ha, e⟩ := bind_eq_ok.mp e
    obtain ⟨rest, hr, e⟩ := bind_eq_ok.mp e
    cases e
    have := CcfbMetric.enc_length ha
    have := ih rest hr
    simp only [List.length_append, List.length_cons] <;> omega

theorem CcfbBlock.enc_length {c : CcfbBlock} {b : Bytes} (e : c.enc = .ok b) : b.length = c.len := by
  unfold CcfbBlock.enc at e
  split at e
  · cases e
  · obtain ⟨ms, hm, e⟩ := bind_eq_ok.mp e
    cases e
    have h1 := encMetrics_length _ _ hm
    simp only [List.length_append, be32_length, be16_length, zeros_length, h1]
    unfold CcfbBlock.len
    simp only [reportsOffset]
    split <;> omega

theorem encBlocks_length (l : List CcfbBlock) (b : Bytes) (e : encBlocks l = .ok b) : b.length = blocksLen l := by
  induction l generalizing b with
  | nil => cases e; rfl
  | cons r rs ih =>
    unfold encBlocks at e
    obtain ⟨a, ha, e⟩ := bind_eq_ok.mp e
    obtain ⟨rest, hr, e⟩ := bind_eq_ok.mp e
    cases e
    have := CcfbBlock.enc_length ha
    have := ih rest hr
    simp only [blocksLen, List.map_cons, List.sum_cons, List.length_append] at * <;> omega

theorem Ccfb.enc_length (v : Ccfb) (b : Bytes) (h : v.enc = .ok b) : b.length = v.marshalSize := by
  unfold Ccfb.enc at h
  obtain ⟨hd, hh, h⟩ := bind_eq_ok.mp h
  obtain ⟨bs, hb, h⟩ := bind_eq_ok.mp h
  cases h
  have h1 := encBlocks_length _ _ hb
  have h2 := Header.enc_length hh
  simp only [Ccfb.marshalSize, List.length_append, be32_length, h1, h2] <;> csolve

/-! ## TWCC: `Marshal` allocates `MarshalSize()` octets and only ever copies into them -/

theorem copyInto_length {buf data p : Bytes} {off : Nat} (e : copyInto buf off data = .ok p) : p.length = buf.length := by
  unfold copyInto at e
  split at e
  · cases e
    simp only [List.length_append, List.length_take, List.length_drop]
    omega
  · cases e

theorem writeDeltas_length (ds : List RecvDelta) (payload p : Bytes) (pos : Nat) (e : writeDeltas ds payload pos = .ok p) :
    p.length = payload.length := by
  induction ds generalizing payload pos with
  | nil => cases e; rfl
  | cons d ds ih =>
    unfold writeDeltas at e
    obtain ⟨a, ha, e⟩ := bind_eq_ok.mp e
    obtain ⟨q, hq, e⟩ := bind_eq_ok.mp e
    rw [ih q _ e, copyInto_length hq]

theorem Twcc.enc_length (v : Twcc) (b : Bytes) (h : v.enc = .ok b) : b.length = v.marshalSize := by
  unfold Twcc.enc at h
  obtain ⟨hd, hh, h⟩ := bind_eq_ok.mp h
  dsimp only at h
  split at h
  · cases h
  · rename_i hs
    split at h
    · cases h
    · rename_i hn
      obtain ⟨cs, hc, h⟩ := bind_eq_ok.mp h
      obtain ⟨p1, hp1, h⟩ := bind_eq_ok.mp h
      obtain ⟨p2, hp2, h⟩ := bind_eq_ok.mp h
      obtain ⟨p3, hp3, h⟩ := bind_eq_ok.mp h
      cases h
      have l1 : p1.length = v.marshalSize - headerLength := by
        split at hp1
        · cases hp1
        · rw [copyInto_length hp1]
          simp only [List.length_append, be32_length, be16_length, zeros_length]
          omega
      have l2 : p2.length = v.marshalSize - headerLength := by rw [writeDeltas_length _ _ _ _ hp2, l1]
      have l3 : p3.length = v.marshalSize - headerLength := by
        split at hp3
        · split at hp3
          · cases hp3
          · cases hp3
            simp only [List.length_append, List.length_take, List.length_cons, List.length_nil, l2]
            omega
        · cases hp3; exact l2
      simp only [List.length_append, Header.enc_length hh, l3]
      simp only [headerLength] at *
      omega

/-! ## XR: the reflective writer emits `wireSize` octets for every layout whose widths are 1/2/4/8 -/

/-- every scalar width in the layout is one the writer knows (true of the generated layouts: `layouts_wok`) -/
def itemsWOK : List Item → Bool
  | [] => true
  | .scalar _ w :: is => decide (widthOK w) && itemsWOK is
  | .sliceOf _ ws :: is => ws.all (fun w => decide (widthOK w)) && itemsWOK is
  | .skip _ :: is => itemsWOK is
  | .omitted _ :: is => itemsWOK is
  | .blocks _ :: is => itemsWOK is
  | .bad _ :: is => itemsWOK is

theorem layouts_wok : ∀ k, itemsWOK (layoutOf k).items = true := by
  intro k
  unfold layoutOf
  split <;> decide

theorem writeElem_length (ws vs : List Nat) (b : Bytes) (hw : ∀ w ∈ ws, widthOK w) (e : writeElem ws vs = .ok b) :
    b.length = elemSize ws := by
  induction ws generalizing vs b with
  | nil => unfold writeElem at e; cases e; rfl
  | cons w ws ih =>
    cases vs with
    | nil => simp [writeElem] at e
    | cons x vs =>
      simp only [writeElem] at e
      obtain ⟨rest, hr, e⟩ := bind_eq_ok.mp e
      cases e
      have := ih vs rest (fun y hy => hw y (by simp [hy])) hr
      simp only [List.length_append, writeScalar_length w x (hw w (by simp)), elemSize, List.sum_cons] at * <;> omega

theorem writeElems_length (ws : List Nat) (es : List (List Nat)) (b : Bytes) (hw : ∀ w ∈ ws, widthOK w)
    (e : writeElems ws es = .ok b) : b.length = es.length * elemSize ws := by
  induction es generalizing b with
  | nil => cases e; simp
  | cons x es ih =>
    unfold writeElems at e
    obtain ⟨a, ha, e⟩ := bind_eq_ok.mp e
    obtain ⟨rest, hr, e⟩ := bind_eq_ok.mp e
    cases e
    have h1 := writeElem_length ws x a hw ha
    have h2 := ih rest hr
    simp only [List.length_append, List.length_cons, h1, h2, Nat.add_mul] <;> omega

theorem writeItems_length (items : List Item) (vs : List Nat) (es : List (List Nat)) (b : Bytes)
    (hw : itemsWOK items = true) (e : writeItems items vs es = .ok b) : b.length = sizeItems items es := by
  induction items generalizing vs b with
  | nil => simp only [writeItems] at e; cases e; rfl
  | cons it is ih =>
    cases it with
    | scalar n w =>
      simp only [itemsWOK, Bool.and_eq_true, decide_eq_true_eq] at hw
      cases vs with
      | nil => simp [writeItems] at e
      | cons x vs =>
        simp only [writeItems] at e
        obtain ⟨rest, hr, e⟩ := bind_eq_ok.mp e
        cases e
        have := ih vs rest hw.2 hr
        simp only [List.length_append, writeScalar_length w x hw.1, sizeItems, this]
    | skip w =>
      simp only [itemsWOK] at hw
      simp only [writeItems] at e
      obtain ⟨rest, hr, e⟩ := bind_eq_ok.mp e
      cases e
      have := ih vs rest hw hr
      simp only [List.length_append, zeros_length, sizeItems, this]
    | omitted n =>
      simp only [itemsWOK] at hw
      simp only [writeItems] at e
      simpa only [sizeItems] using ih vs b hw e
    | sliceOf n ws =>
      simp only [itemsWOK, Bool.and_eq_true, List.all_eq_true, decide_eq_true_eq] at hw
      simp only [writeItems] at e
      obtain ⟨a, ha, e⟩ := bind_eq_ok.mp e
      obtain ⟨rest, hr, e⟩ := bind_eq_ok.mp e
      cases e
      have h1 := writeElems_length ws es a hw.1 ha
      have h2 := ih vs rest hw.2 hr
      simp only [List.length_append, sizeItems, h1, h2]
    | blocks n => simp [writeItems] at e
    | bad n => simp [writeItems] at e

theorem XRBlock.enc_length {x : XRBlock} {b : Bytes} (e : x.enc = .ok b) : b.length = x.wireSize :=
  writeItems_length _ _ _ _ (layouts_wok x.kind) e

theorem encXRBlocks_length (l : List XRBlock) (b : Bytes) (e : encXRBlocks l = .ok b) :
    b.length = (l.map XRBlock.wireSize).sum := by
  induction l generalizing b with
  | nil => cases e; rfl
  | cons r rs ih =>
    unfold encXRBlocks at e
    obtain ⟨a, ha, e⟩ := bind_eq_ok.mp e
    obtain ⟨rest, hr, e⟩ := bind_eq_ok.mp e
    cases e
    have := XRBlock.enc_length ha
    have := ih rest hr
    simp only [List.map_cons, List.sum_cons, List.length_append] at * <;> omega

/-- `setupBlockHeader` does not change what the block occupies on the wire -/
theorem XRBlock.setup_wireSize (x : XRBlock) : x.setup.wireSize = x.wireSize := rfl

theorem XR.setup_wireSize (x : XR) : ({ x with blocks := x.blocks.map XRBlock.setup } : XR).wireSize = x.wireSize := by
  simp only [XR.wireSize, List.map_map]
  congr 2

/-- ExtendedReport: the bytes (first component of the model's result) have `MarshalSize()` octets -/
theorem XR.enc_length (v : XR) (b : Bytes) (v' : XR) (h : v.enc = .ok (b, v')) : b.length = v.marshalSize := by
  unfold XR.enc at h
  dsimp only at h
  obtain ⟨hd, hh, h⟩ := bind_eq_ok.mp h
  obtain ⟨bs, hb, h⟩ := bind_eq_ok.mp h
  cases h
  have h1 := encXRBlocks_length _ _ hb
  have h2 := Header.enc_length hh
  have h3 := XR.setup_wireSize v
  simp only [XR.wireSize] at h3
  simp only [XR.marshalSize, XR.wireSize, List.length_append, be32_length, h1, h2, headerLength]
  omega

/-! ## 1. every kind: |Marshal output| = MarshalSize(), from success alone -/

/-- `Packet.enc` of a kind whose Marshal leaves the value alone is that kind's encoder -/
theorem plain_of_enc {o : Out Bytes} {q : Packet} {b : Bytes}
    (h : ((o >>= fun x => pure (x, q) : Out (Bytes × Packet)) >>= fun (x : Bytes × Packet) => pure x.1) = .ok b) : o = .ok b := by
  cases o with
  | ok a => exact h
  | err => cases h
  | panic => cases h
  | diverge => cases h

theorem xr_of_enc {v : XR} {b : Bytes} (h : (Packet.xr v).enc = .ok b) : ∃ v', v.enc = .ok (b, v') := by
  obtain ⟨p', hp⟩ := C03.encP_of_enc h
  simp only [Packet.encP] at hp
  obtain ⟨⟨b', v'⟩, hv, hp⟩ := bind_eq_ok.mp hp
  cases hp
  exact ⟨v', hv⟩

/-- **C05, size clause, no well-formedness premise**: whenever the model's Marshal returns bytes, for every packet kind
(TWCC and XR included), their number is `MarshalSize()`. -/
theorem enc_length_all (p : Packet) (b : Bytes) (h : p.enc = .ok b) : b.length = p.marshalSize := by
  cases p with
  | sr v => exact SenderReport.enc_length v b (plain_of_enc h)
  | rr v => exact ReceiverReport.enc_length v b (plain_of_enc h)
  | sdes v => exact SourceDescription.enc_length v b (plain_of_enc h)
  | bye v => exact Goodbye.enc_length v b (plain_of_enc h)
  | app v => exact ApplicationDefined.enc_length v b (plain_of_enc h)
  | nack v => exact TransportLayerNack.enc_length v b (plain_of_enc h)
  | rrr v => exact RapidResync.enc_length v b (plain_of_enc h)
  | twcc v => exact Twcc.enc_length v b (plain_of_enc h)
  | ccfb v => exact Ccfb.enc_length v b (plain_of_enc h)
  | pli v => exact PictureLossIndication.enc_length v b (plain_of_enc h)
  | sli v => exact SliceLossIndication.enc_length v b (plain_of_enc h)
  | remb v => exact Remb.enc_length v b (plain_of_enc h)
  | fir v => exact FullIntraRequest.enc_length v b (plain_of_enc h)
  | xr v => obtain ⟨v', hv⟩ := xr_of_enc h; exact XR.enc_length v b v' hv
  | raw r => cases h; rfl

/-! ## 2. alignment -/

end Rtcp.C05

namespace Rtcp
/-- the packet is an `ExtendedReport` -/
def Packet.isXR : Packet → Prop | .xr _ => True | _ => False
/-- the packet is a `RawPacket` -/
def Packet.isRaw : Packet → Prop | .raw _ => True | _ => False
/-- the packet is a `TransportLayerCC` -/
def Packet.isTwcc : Packet → Prop | .twcc _ => True | _ => False
instance (p : Packet) : Decidable p.isXR := by cases p <;> unfold Packet.isXR <;> infer_instance
instance (p : Packet) : Decidable p.isRaw := by cases p <;> unfold Packet.isRaw <;> infer_instance
instance (p : Packet) : Decidable p.isTwcc := by cases p <;> unfold Packet.isTwcc <;> infer_instance
end Rtcp

namespace Rtcp.C05
open Rtcp Gen Out
set_option linter.unusedVariables false

theorem ApplicationDefined.size_mod4 (v : ApplicationDefined) : v.marshalSize % 4 = 0 := by
  unfold ApplicationDefined.marshalSize appPadding
  split <;> omega

/-- TWCC: the 16-bit size computation rounds up to a word, and the wrap-around (65536) is itself a multiple of four -/
theorem Twcc.size_mod4 (v : Twcc) : v.marshalSize % 4 = 0 := by
  unfold Twcc.marshalSize
  dsimp only
  split <;> omega

/-- **the size functions themselves are word-aligned** for every kind except XR and RawPacket — for all values, encodable or not -/
theorem marshalSize_aligned (p : Packet) (hx : ¬ p.isXR) (hr : ¬ p.isRaw) : p.marshalSize % 4 = 0 := by
  cases p with
  | sr v => exact SenderReport.size_mod4 v
  | rr v => exact ReceiverReport.size_mod4 v
  | sdes v =>
    have := chunksLen_mod4 v.chunks
    simp only [Packet.marshalSize, SourceDescription.marshalSize, headerLength] <;> omega
  | bye v => exact Goodbye.size_mod4 v
  | app v => exact ApplicationDefined.size_mod4 v
  | nack v => simp only [Packet.marshalSize, TransportLayerNack.marshalSize, headerLength, nackOffset] <;> omega
  | rrr v => simp only [Packet.marshalSize, RapidResync.marshalSize, headerLength, rrrHeaderLength]
  | twcc v => exact Twcc.size_mod4 v
  | ccfb v => exact Ccfb.size_mod4 v
  | pli v => simp only [Packet.marshalSize, PictureLossIndication.marshalSize, headerLength, ssrcLength]
  | sli v => simp only [Packet.marshalSize, SliceLossIndication.marshalSize, headerLength, sliOffset] <;> omega
  | remb v => simp only [Packet.marshalSize, Remb.marshalSize] <;> omega
  | fir v => simp only [Packet.marshalSize, FullIntraRequest.marshalSize, headerLength, firOffset] <;> omega
  | xr v => exact absurd trivial hx
  | raw r => exact absurd trivial hr

/-- **C05, alignment clause, no well-formedness premise**: whenever Marshal returns bytes (kind other than XR — recorded
finding KF-XR-ALIGN — and RawPacket — caller bytes), their number is a multiple of four. -/
theorem enc_aligned_all (p : Packet) (b : Bytes) (h : p.enc = .ok b) (hx : ¬ p.isXR) (hr : ¬ p.isRaw) : b.length % 4 = 0 := by
  rw [enc_length_all p b h]
  exact marshalSize_aligned p hx hr

/-! ## 3. the header written: version 2, packet type, FMT/count, length field = words − 1 (mod 2^16) -/

/-- the first four octets of `b` announce version 2, packet type `pt`, count/FMT `cnt`, and carry the length field of a
packet of `size` octets: `uint16(size/4 − 1)` -/
def HdrIs (b : Bytes) (pt cnt size : Nat) : Prop :=
  get8 b 0 / 64 = 2 ∧ get8 b 0 % 32 = cnt ∧ get8 b 1 = pt ∧ get16 b 2 = (size / 4 - 1) % 65536

theorem hdrIs_of {h : Header} {hb rest : Bytes} {pt cnt size : Nat} (e : h.enc = .ok hb)
    (ht : h.type = pt) (hp : pt < 256) (hc : h.count = cnt) (hl : h.length = (size / 4 - 1) % 65536) :
    HdrIs (hb ++ rest) pt cnt size := by
  unfold Header.enc at e
  split at e
  · cases e
  · rename_i hc31
    cases e
    subst ht; subst hc
    simp only [HdrIs, get16, be16, List.cons_append, List.nil_append, get8_cons_zero, get8_cons_succ, byte_toNat, rtpVersion, hl]
    refine ⟨?_, ?_, ?_, ?_⟩
    · split <;> omega
    · split <;> omega
    · omega
    · omega

theorem SenderReport.enc_header (v : SenderReport) (b : Bytes) (h : v.enc = .ok b) :
    HdrIs b 200 v.reports.length v.marshalSize := by
  unfold SenderReport.enc at h
  obtain ⟨reps, hr, h⟩ := bind_eq_ok.mp h
  split at h
  · cases h
  · rename_i hc
    obtain ⟨hd, hh, h⟩ := bind_eq_ok.mp h
    cases h
    simp only [List.append_assoc]
    refine hdrIs_of hh rfl (by omega) ?_ rfl
    simp only [SenderReport.header, countMax] at * <;> omega

theorem ReceiverReport.enc_header (v : ReceiverReport) (b : Bytes) (h : v.enc = .ok b) :
    HdrIs b 201 v.reports.length v.marshalSize := by
  unfold ReceiverReport.enc at h
  obtain ⟨reps, hr, h⟩ := bind_eq_ok.mp h
  split at h
  · cases h
  · rename_i hc
    obtain ⟨hd, hh, h⟩ := bind_eq_ok.mp h
    cases h
    simp only [List.append_assoc]
    refine hdrIs_of hh rfl (by omega) ?_ rfl
    simp only [ReceiverReport.header, countMax] at * <;> omega

theorem SourceDescription.enc_header (v : SourceDescription) (b : Bytes) (h : v.enc = .ok b) :
    HdrIs b 202 v.chunks.length v.marshalSize := by
  unfold SourceDescription.enc at h
  obtain ⟨cs, hc, h⟩ := bind_eq_ok.mp h
  split at h
  · cases h
  · rename_i hc
    obtain ⟨hd, hh, h⟩ := bind_eq_ok.mp h
    cases h
    refine hdrIs_of hh rfl (by omega) ?_ rfl
    simp only [SourceDescription.header, countMax] at * <;> omega

theorem Goodbye.enc_header (v : Goodbye) (b : Bytes) (h : v.enc = .ok b) :
    HdrIs b 203 v.sources.length v.marshalSize := by
  unfold Goodbye.enc at h
  split at h
  · cases h
  · rename_i hc
    split at h
    · cases h
    · obtain ⟨hd, hh, h⟩ := bind_eq_ok.mp h
      cases h
      simp only [List.append_assoc]
      refine hdrIs_of hh rfl (by omega) ?_ rfl
      simp only [Goodbye.header, countMax] at * <;> omega

theorem ApplicationDefined.enc_header (v : ApplicationDefined) (b : Bytes) (h : v.enc = .ok b) :
    HdrIs b 204 v.subType v.marshalSize := by
  unfold ApplicationDefined.enc at h
  split at h
  · cases h
  · split at h
    · cases h
    · obtain ⟨hd, hh, h⟩ := bind_eq_ok.mp h
      cases h
      simp only [List.append_assoc]
      exact hdrIs_of hh rfl (by omega) rfl rfl

theorem PictureLossIndication.enc_header (v : PictureLossIndication) (b : Bytes) (h : v.enc = .ok b) :
    HdrIs b 206 1 v.marshalSize := by
  unfold PictureLossIndication.enc at h
  obtain ⟨hd, hh, h⟩ := bind_eq_ok.mp h
  cases h
  simp only [List.append_assoc]
  exact hdrIs_of hh rfl (by omega) rfl (by simp [PictureLossIndication.header, PictureLossIndication.marshalSize])

theorem RapidResync.enc_header (v : RapidResync) (b : Bytes) (h : v.enc = .ok b) :
    HdrIs b 205 5 v.marshalSize := by
  unfold RapidResync.enc at h
  obtain ⟨hd, hh, h⟩ := bind_eq_ok.mp h
  cases h
  simp only [List.append_assoc]
  exact hdrIs_of hh rfl (by omega) rfl (by simp [RapidResync.header, RapidResync.marshalSize])

theorem TransportLayerNack.enc_header (v : TransportLayerNack) (b : Bytes) (h : v.enc = .ok b) :
    HdrIs b 205 1 v.marshalSize := by
  unfold TransportLayerNack.enc at h
  split at h
  · cases h
  · obtain ⟨hd, hh, h⟩ := bind_eq_ok.mp h
    cases h
    simp only [List.append_assoc]
    exact hdrIs_of hh rfl (by omega) rfl rfl

theorem SliceLossIndication.enc_header (v : SliceLossIndication) (b : Bytes) (h : v.enc = .ok b) :
    HdrIs b 205 2 v.marshalSize := by
  unfold SliceLossIndication.enc at h
  split at h
  · cases h
  · obtain ⟨hd, hh, h⟩ := bind_eq_ok.mp h
    cases h
    simp only [List.append_assoc]
    exact hdrIs_of hh rfl (by omega) rfl rfl

theorem FullIntraRequest.enc_header (v : FullIntraRequest) (b : Bytes) (h : v.enc = .ok b) :
    HdrIs b 206 4 v.marshalSize := by
  unfold FullIntraRequest.enc at h
  obtain ⟨hd, hh, h⟩ := bind_eq_ok.mp h
  cases h
  simp only [List.append_assoc]
  exact hdrIs_of hh rfl (by omega) rfl rfl

theorem Remb.enc_header (v : Remb) (b : Bytes) (h : v.enc = .ok b) : HdrIs b 206 15 v.marshalSize := by
  unfold Remb.enc at h
  split at h
  · cases h
  · obtain ⟨⟨m, exp⟩, hm, h⟩ := bind_eq_ok.mp h
    cases h
    simp only [HdrIs, get16, be16, List.cons_append, List.nil_append, List.append_assoc, get8_cons_zero, get8_cons_succ, byte_toNat]
    refine ⟨by decide, by decide, by decide, ?_⟩
    omega

theorem Ccfb.enc_header (v : Ccfb) (b : Bytes) (h : v.enc = .ok b) : HdrIs b 205 11 v.marshalSize := by
  unfold Ccfb.enc at h
  obtain ⟨hd, hh, h⟩ := bind_eq_ok.mp h
  obtain ⟨bs, hb, h⟩ := bind_eq_ok.mp h
  cases h
  simp only [List.append_assoc]
  exact hdrIs_of hh rfl (by omega) rfl rfl

theorem XR.enc_header (v : XR) (b : Bytes) (v' : XR) (h : v.enc = .ok (b, v')) : HdrIs b 207 0 v.marshalSize := by
  unfold XR.enc at h
  dsimp only at h
  obtain ⟨hd, hh, h⟩ := bind_eq_ok.mp h
  obtain ⟨bs, hb, h⟩ := bind_eq_ok.mp h
  cases h
  simp only [List.append_assoc]
  refine hdrIs_of hh rfl (by omega) rfl ?_
  have h3 := XR.setup_wireSize v
  simp only [h3, XR.marshalSize, headerLength]
  omega

/-- TransportLayerCC: the header octets are the caller's `Header` field, whatever the content -/
theorem Twcc.enc_header_caller (v : Twcc) (b : Bytes) (h : v.enc = .ok b) :
    get8 b 0 / 64 = 2 ∧ get8 b 0 % 32 = v.header.count ∧ get8 b 1 = v.header.type % 256 ∧ get16 b 2 = v.header.length % 65536 := by
  unfold Twcc.enc at h
  obtain ⟨hd, hh, h⟩ := bind_eq_ok.mp h
  dsimp only at h
  split at h
  · cases h
  · split at h
    · cases h
    · obtain ⟨cs, hc, h⟩ := bind_eq_ok.mp h
      obtain ⟨p1, hp1, h⟩ := bind_eq_ok.mp h
      obtain ⟨p2, hp2, h⟩ := bind_eq_ok.mp h
      obtain ⟨p3, hp3, h⟩ := bind_eq_ok.mp h
      cases h
      unfold Header.enc at hh
      split at hh
      · cases hh
      · cases hh
        simp only [get16, be16, List.cons_append, List.nil_append, get8_cons_zero, get8_cons_succ, byte_toNat, rtpVersion]
        refine ⟨?_, ?_, trivial, ?_⟩
        · split <;> omega
        · split <;> omega
        · omega

/-- TransportLayerCC, "given a header consistent with the content" -/
theorem Twcc.enc_header (v : Twcc) (b : Bytes) (h : v.enc = .ok b)
    (hc : v.header.type = 205 ∧ v.header.count = 15 ∧ v.header.length = (v.marshalSize / 4 - 1) % 65536) :
    HdrIs b 205 15 v.marshalSize := by
  obtain ⟨h1, h2, h3, h4⟩ := Twcc.enc_header_caller v b h
  refine ⟨h1, by rw [h2, hc.2.1], by rw [h3, hc.1], ?_⟩
  rw [h4, hc.2.2]; omega

end Rtcp.C05

namespace Rtcp
/-- the packet type each kind's `Header()` announces (RFC 3550 / 4585 / 3611 registry values, except that the library's
SliceLossIndication announces 205 where RFC 4585 says 206 — the recorded SLI finding, cf. `C05.model_headers`) -/
def Packet.pktType : Packet → Nat
  | .sr _ => 200 | .rr _ => 201 | .sdes _ => 202 | .bye _ => 203 | .app _ => 204
  | .nack _ => 205 | .rrr _ => 205 | .twcc _ => 205 | .ccfb _ => 205
  | .pli _ => 206 | .sli _ => 205 | .remb _ => 206 | .fir _ => 206 | .xr _ => 207 | .raw _ => 0
/-- the count / FMT each kind announces -/
def Packet.fmtCount : Packet → Nat
  | .sr v => v.reports.length | .rr v => v.reports.length | .sdes v => v.chunks.length | .bye v => v.sources.length
  | .app v => v.subType | .nack _ => 1 | .rrr _ => 5 | .twcc _ => 15 | .ccfb _ => 11
  | .pli _ => 1 | .sli _ => 2 | .remb _ => 15 | .fir _ => 4 | .xr _ => 0 | .raw _ => 0
end Rtcp

namespace Rtcp.C05
open Rtcp Gen Out
set_option linter.unusedVariables false

/-- **C05, header clause, no well-formedness premise** (stronger than asked: needs neither the fit nor the alignment
hypothesis): whenever Marshal returns bytes, kind other than TWCC / RawPacket (caller-supplied header), octets 0–3 carry
version 2, the kind's count/FMT and packet type, and a length field equal to `uint16(len/4 − 1)`. -/
theorem enc_header_all (p : Packet) (b : Bytes) (h : p.enc = .ok b) (hk : ¬ p.isTwcc) (hr : ¬ p.isRaw) :
    HdrIs b p.pktType p.fmtCount b.length := by
  rw [enc_length_all p b h]
  cases p with
  | sr v => exact SenderReport.enc_header v b (plain_of_enc h)
  | rr v => exact ReceiverReport.enc_header v b (plain_of_enc h)
  | sdes v => exact SourceDescription.enc_header v b (plain_of_enc h)
  | bye v => exact Goodbye.enc_header v b (plain_of_enc h)
  | app v => exact ApplicationDefined.enc_header v b (plain_of_enc h)
  | nack v => exact TransportLayerNack.enc_header v b (plain_of_enc h)
  | rrr v => exact RapidResync.enc_header v b (plain_of_enc h)
  | twcc v => exact absurd trivial hk
  | ccfb v => exact Ccfb.enc_header v b (plain_of_enc h)
  | pli v => exact PictureLossIndication.enc_header v b (plain_of_enc h)
  | sli v => exact SliceLossIndication.enc_header v b (plain_of_enc h)
  | remb v => exact Remb.enc_header v b (plain_of_enc h)
  | fir v => exact FullIntraRequest.enc_header v b (plain_of_enc h)
  | xr v => obtain ⟨v', hv⟩ := xr_of_enc h; exact XR.enc_header v b v' hv
  | raw r => exact absurd trivial hr

/-- the statement as asked (the two extra hypotheses are not needed) -/
theorem enc_length_field_all (p : Packet) (b : Bytes) (h : p.enc = .ok b) (hfit : b.length ≤ 262144) (h4 : b.length % 4 = 0)
    (hk : ¬ p.isTwcc) (hr : ¬ p.isRaw) : get16 b 2 = (b.length / 4 - 1) % 65536 :=
  (enc_header_all p b h hk hr).2.2.2

/-- when the encoding fits the 16-bit field the `% 65536` disappears -/
theorem enc_length_field_fit (p : Packet) (b : Bytes) (h : p.enc = .ok b) (hfit : b.length ≤ 262144)
    (hk : ¬ p.isTwcc) (hr : ¬ p.isRaw) : get16 b 2 = b.length / 4 - 1 := by
  rw [(enc_header_all p b h hk hr).2.2.2]; omega

/-- TWCC with the premise the property names -/
theorem twcc_header (v : Twcc) (b : Bytes) (h : (Packet.twcc v).enc = .ok b)
    (hc : v.header.type = 205 ∧ v.header.count = 15 ∧ v.header.length = (v.marshalSize / 4 - 1) % 65536) :
    HdrIs b 205 15 b.length := by
  rw [enc_length_all _ b h]
  exact Twcc.enc_header v b (plain_of_enc h) hc

/-! ## 4. lists -/

/-- **`rtcp.Marshal([]Packet)` / `CompoundPacket.Marshal`: the datagram has `CompoundPacket.MarshalSize()` octets**,
from success alone -/
theorem list_length_all (ps : List Packet) (b : Bytes) (h : uenc ps = .ok b) : b.length = csize ps := by
  obtain ⟨bs, hbs, hb⟩ := C03.list_is_concat ps b h
  subst hb
  clear h
  induction hbs with
  | nil => rfl
  | @cons p bp ps' bs' hp _ ih =>
    simp only [List.flatten_cons, List.length_append, csize, List.map_cons, List.sum_cons] at *
    rw [enc_length_all p bp hp, ih]

theorem compound_length_all (ps : List Packet) (b : Bytes) (h : cenc ps = .ok b) : b.length = csize ps :=
  list_length_all ps b (C03.compound_ok_valid ps b h).2

/-- a datagram of aligned kinds is aligned -/
theorem list_aligned_all (ps : List Packet) (b : Bytes) (h : uenc ps = .ok b)
    (hk : ∀ p ∈ ps, ¬ p.isXR ∧ ¬ p.isRaw) : b.length % 4 = 0 := by
  rw [list_length_all ps b h]
  clear h
  induction ps with
  | nil => rfl
  | cons p ps ih =>
    have h1 := marshalSize_aligned p (hk p (by simp)).1 (hk p (by simp)).2
    have h2 := ih (fun q hq => hk q (by simp [hq]))
    simp only [csize, List.map_cons, List.sum_cons] at * <;> omega

/-! ## the exclusions and premises are necessary (concrete witnesses) -/

/-- a LossRLE block with one chunk: 14 octets -/
def exXR : XR := { sender := 1, blocks := [{ kind := 1, vals := [7, 1, 2], elems := [[5]] }] }

theorem exXR_enc : (Packet.xr exXR).enc = .ok [128, 207, 0, 4, 0, 0, 0, 1, 1, 0, 0, 2, 0, 0, 0, 7, 0, 1, 0, 2, 0, 5] := by decide

/-- **XR must be excluded from the alignment clause** (KF-XR-ALIGN): Marshal succeeds with 22 octets; the size clause still
holds (MarshalSize() = 22) and the length field says 4, i.e. 20 octets -/
theorem XR.enc_aligned_needs_premise :
    ∃ b, (Packet.xr exXR).enc = .ok b ∧ b.length = (Packet.xr exXR).marshalSize ∧ ¬ b.length % 4 = 0 ∧ (get16 b 2 + 1) * 4 ≠ b.length :=
  ⟨_, exXR_enc, by decide, by decide, by decide⟩

/-- **RawPacket must be excluded from the alignment clause**: the caller's bytes come back unchanged -/
theorem raw_enc_aligned_needs_premise : ∃ b, (Packet.raw [1]).enc = .ok b ∧ ¬ b.length % 4 = 0 := ⟨[1], rfl, by decide⟩

/-- a TransportLayerCC built without filling in `Header` (one run-length chunk, one small delta) -/
def exTw : Twcc := { sender := 1, media := 2, baseSeq := 3, statusCount := 1, chunks := [.rl 0 1 1], deltas := [{ type := 1, delta := 250 }] }

theorem exTw_enc : (Packet.twcc exTw).enc = .ok [128, 0, 0, 0, 0, 0, 0, 1, 0, 0, 0, 2, 0, 3, 0, 1, 0, 0, 0, 0, 32, 1, 1, 0] := by decide

/-- **TWCC needs the "header consistent with the content" premise for the header clause** (not for size or alignment):
Marshal succeeds, 24 = MarshalSize() octets, but packet type 0, FMT 0, length field 0 -/
theorem Twcc.enc_header_needs_premise :
    ∃ b, (Packet.twcc exTw).enc = .ok b ∧ b.length = (Packet.twcc exTw).marshalSize ∧ b.length % 4 = 0 ∧
      ¬ HdrIs b (Packet.twcc exTw).pktType (Packet.twcc exTw).fmtCount b.length :=
  ⟨_, exTw_enc, by decide, by decide, by
    intro h
    have := h.2.2.1
    revert this
    decide⟩

/-! ## 5. the theorems on values that are NOT well-formed but that Marshal accepts -/

/-- SSRC beyond 32 bits (silently truncated) and an extension of 3 octets (padded) -/
def exSR : SenderReport := { ssrc := 1099511627776 + 5, ext := [1, 2, 3] }
theorem exSR_notWF : ¬ exSR.WF := by decide
theorem exSR_enc : (Packet.sr exSR).enc =
    .ok [128, 200, 0, 7, 0, 0, 0, 5, 0, 0, 0, 0, 0, 0, 0, 0, 0, 0, 0, 0, 0, 0, 0, 0, 0, 0, 0, 0, 1, 2, 3, 0] := by decide

example : ([128, 200, 0, 7, 0, 0, 0, 5, 0, 0, 0, 0, 0, 0, 0, 0, 0, 0, 0, 0, 0, 0, 0, 0, 0, 0, 0, 0, 1, 2, 3, 0] : Bytes).length
    = (Packet.sr exSR).marshalSize := enc_length_all _ _ exSR_enc
example : ([128, 200, 0, 7, 0, 0, 0, 5, 0, 0, 0, 0, 0, 0, 0, 0, 0, 0, 0, 0, 0, 0, 0, 0, 0, 0, 0, 0, 1, 2, 3, 0] : Bytes).length % 4 = 0 :=
  enc_aligned_all _ _ exSR_enc (by decide) (by decide)
example : HdrIs [128, 200, 0, 7, 0, 0, 0, 5, 0, 0, 0, 0, 0, 0, 0, 0, 0, 0, 0, 0, 0, 0, 0, 0, 0, 0, 0, 0, 1, 2, 3, 0] 200 0 32 :=
  enc_header_all _ _ exSR_enc (by decide) (by decide)

/-- APP with 3 data octets (`WF` asks for a multiple of four): padded with the pad count, P bit set -/
def exApp : ApplicationDefined := { subType := 3, ssrc := 9, name := [65, 66, 67, 68], data := [1, 2, 3] }
theorem exApp_notWF : ¬ exApp.WF := by decide
theorem exApp_enc : (Packet.app exApp).enc = .ok [163, 204, 0, 3, 0, 0, 0, 9, 65, 66, 67, 68, 1, 2, 3, 1] := by decide
example : HdrIs [163, 204, 0, 3, 0, 0, 0, 9, 65, 66, 67, 68, 1, 2, 3, 1] 204 3 16 :=
  enc_header_all _ _ exApp_enc (by decide) (by decide)

/-- a NACK without pairs (`WF` asks for at least one) -/
def exNack : TransportLayerNack := { sender := 1, media := 2, nacks := [] }
theorem exNack_notWF : ¬ exNack.WF := by decide
theorem exNack_enc : (Packet.nack exNack).enc = .ok [129, 205, 0, 2, 0, 0, 0, 1, 0, 0, 0, 2] := by decide

/-- the list-level theorem on a datagram made of the three of them and the unaligned XR -/
example (b : Bytes) (h : uenc [.sr exSR, .app exApp, .nack exNack, .xr exXR] = .ok b) :
    b.length = csize [.sr exSR, .app exApp, .nack exNack, .xr exXR] := list_length_all _ b h
example : csize [.sr exSR, .app exApp, .nack exNack, .xr exXR] = 82 := by decide
example : (uenc [.sr exSR, .app exApp, .nack exNack, .xr exXR]).isOk = true := by decide

end Rtcp.C05
