/-
  C01 — decoding arbitrary bytes never panics, hangs or over-allocates.
  Statements only; the work is in Lemmas/Safe*.lean. `Safe o` = `o ≠ panic ∧ o ≠ diverge`.
-/
import Rtcp.Lemmas.Safe6
import Rtcp.Lemmas.Alloc
namespace Rtcp.C01
open Rtcp

/-- the 23 decode entry points of the property -/
inductive Entry where
  | datagram                      -- rtcp.Unmarshal
  | packet (k : Kind)             -- (*T).Unmarshal for the 15 non-compound Packet implementations
  | compound                      -- (*CompoundPacket).Unmarshal
  | header | receptionReport | sdesChunk | sdesItem | runLengthChunk | statusVectorChunk | recvDelta

/-- outcome class of running an entry point on `b` -/
def run : Entry → Bytes → Out Unit
  | .datagram, b => (fun _ => ()) <$> udec b
  | .packet k, b => (fun _ => ()) <$> decKind k b
  | .compound, b => (fun _ => ()) <$> cdec b
  | .header, b => (fun _ => ()) <$> Header.dec b
  | .receptionReport, b => (fun _ => ()) <$> ReceptionReport.dec b
  | .sdesChunk, b => (fun _ => ()) <$> SDESChunk.dec b
  | .sdesItem, b => (fun _ => ()) <$> SDESItem.dec b
  | .runLengthChunk, b => (fun _ => ()) <$> rlChunkDec b
  | .statusVectorChunk, b => (fun _ => ()) <$> svChunkDec b
  | .recvDelta, b => (fun _ => ()) <$> RecvDelta.dec b

theorem run_safe (e : Entry) (b : Bytes) : (run e b).Safe := by
  cases e <;> unfold run <;> apply Out.safe_map
  · exact udec_safe b
  · exact decKind_safe _ b
  · exact cdec_safe b
  · exact Header.dec_safe b
  · exact ReceptionReport.dec_safe b
  · exact SDESChunk.dec_safe b
  · exact SDESItem.dec_safe b
  · exact rlChunkDec_safe b
  · exact svChunkDec_safe b
  · exact RecvDelta.dec_safe b

/-- **no panic**: for every byte string and every entry point -/
theorem no_panic (e : Entry) (b : Bytes) : run e b ≠ .panic := (run_safe e b).1

/-- **terminates**: the gas (`|b| + 1` iterations per loop) is never exhausted -/
theorem terminates (e : Entry) (b : Bytes) : run e b ≠ .diverge := (run_safe e b).2

/-- the two internal sub-decoders of RFC 8888 reached through hooks -/
theorem ccfb_block_safe (b : Bytes) : (CcfbBlock.dec b).Safe := CcfbBlock.dec_safe b
theorem ccfb_metric_safe (b : Bytes) : (CcfbMetric.dec b).Safe := CcfbMetric.dec_safe b

/-- the progress fact behind the datagram loop: an accepted frame is never empty, also when `Length+1` wraps -/
theorem frame_progress {b : Bytes} {p : Packet} {n : Nat} (e : unmarshalOne b = .ok (p, n)) : 4 ≤ n ∧ n ≤ b.length :=
  unmarshalOne_progress e

/-- **bounded allocation** (TWCC, the decoder with a multiplying inner loop): the receive deltas left in the
(possibly rejected, partially filled) receiver never exceed the packet status count read from the wire,
and the chunks never exceed half the input -/
theorem twcc_bounded (b : Bytes) :
    (Twcc.decP b).1.deltas.length ≤ 65535 + 14 ∧ (Twcc.decP b).1.chunks.length * 2 ≤ b.length :=
  twcc_alloc_bound b

/-- non-vacuity: a real TWCC packet goes through `decP` with status ok -/
example : (Twcc.decP [0x8f, 0xcd, 0, 5, 0, 0, 0, 1, 0, 0, 0, 2, 0, 3, 0, 2, 0, 4, 5, 6, 0x20, 2, 1, 2, 0, 0]).2 = .ok := by decide

end Rtcp.C01
