import Rtcp.Lemmas.Safe6
namespace Rtcp.C17
end Rtcp.C17
