/-
  C17 — String() is total. What is a theorem here (DESIGN §6 C17): the only indexing a hand-written String
  method performs (REMB's unit table) stays in range for *every* interpretation of the float operations;
  the enum String functions are total tables. `fmt` and `reflect` are trusted and exercised by the correspondence.
-/
import Rtcp.Model.Remb
import Rtcp.Model.Enum
namespace Rtcp.C17
open Rtcp Gen
set_option linter.unusedSimpArgs false

/-- whatever the float operations do (rounding, NaN, infinities), the index stays inside the table -/
theorem unit_index_in_range {F : Type} (ge1000 : F → Bool) (div1000 : F → F) (nUnits gas : Nat) (x : F) (p : Nat)
    (hn : 0 < nUnits) (hp : p < nUnits) : unitLoop ge1000 div1000 nUnits gas x p < nUnits := by
  induction gas generalizing x p with
  | zero => exact hp
  | succ g ih =>
    unfold unitLoop
    split
    · rename_i h; exact ih _ _ (by omega)
    · exact hp

/-- the concrete model used by the correspondence is an instance: index < 7 for all 2^32 bit patterns -/
theorem rembUnitIndex_lt (bits : Nat) : rembUnitIndex bits < 7 := by
  unfold rembUnitIndex
  split; · omega
  split; · omega
  split; · omega
  split; · omega
  exact unit_index_in_range _ _ 7 10 _ 0 (by omega) (by omega)

/-- enum String methods: the registered values map to their names, everything else to the default arm -/
theorem packetType_names :
    packetTypeString 200 = "SR" ∧ packetTypeString 201 = "RR" ∧ packetTypeString 202 = "SDES" ∧ packetTypeString 203 = "BYE" ∧
    packetTypeString 204 = "APP" ∧ packetTypeString 205 = "TSFB" ∧ packetTypeString 206 = "PSFB" ∧ packetTypeString 207 = "XR" := by
  decide

theorem toh_total (t : Nat) : tohString t = "[ToH Missing]" ∨ tohString t = "[ToH = IPv4]" ∨ tohString t = "[ToH = IPv6]" ∨
    tohString t = "[ToH Flag is Invalid]" := by
  unfold tohString
  split; · simp
  split; · simp
  split <;> simp

/-- the largest float32 (3.4e38) selects the last unit, "Eb" -/
example : rembUnitIndex 0x7f7fffff = 6 := by decide
example : rembUnitIndex 0x447a0000 = 1 := by decide   -- 1000.0 → "Kb"

end Rtcp.C17
