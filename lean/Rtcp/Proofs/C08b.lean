/-
  C08b — the wire limits of Marshal as ONE decidable predicate over all packet kinds, and Marshal's verdict as an
  if-and-only-if.  (Per-kind `*_limits` theorems: Proofs/C08.lean.)

  `withinLimits : Packet → Bool`   every guard of the model's encoders that returns an error, kind by kind
  `enc_ok_iff_limits`              Marshal returns bytes  ↔  `withinLimits`            (every kind except TWCC)
  `enc_err_no_bytes`               `withinLimits = false` → Marshal returns `err` (the model's `Out.err` carries no bytes)
                                   (every kind except TWCC and XR; XR: see below)
  `enc_no_bytes`                   `withinLimits = false` → no `b` with `enc = ok b`    (every kind except TWCC)
  `twcc_enc_ok_imp_limits`, `twcc_enc_ok_iff_limits`, `twcc_enc_err_no_bytes`   TWCC, the converse under `Twcc.fitsSize`
  `limits_list`, `limits_compound` rtcp.Marshal / CompoundPacket.Marshal succeed only if every member is within limits
  at-limit / above-limit examples  at the end of the file

  What `withinLimits` contains, kind by kind.  (P) = named in the text of property C08, (E) = enforced by the encoder but
  not named in the property text, (S) = not a limit at all: a shape condition of the model's untyped XR representation.
    SR, RR   (P) at most 31 reports; (P) every cumulative-lost < 2^24
    SDES     (P) at most 31 chunks; (P) no item of type 0; (P) every item text ≤ 255 octets
    BYE      (P) at most 31 sources; (P) reason ≤ 255 octets
    APP      (P) name of exactly 4 octets; (P) subtype ≤ 31; (E) data ≤ 65523 octets (= 0xFFFF − 12)
    NACK     (E) at most 253 pairs (`len(Nacks) + 2 > 255` is rejected)
    SLI      (E) at most 253 entries (`len(SLI) + 2 > 255` is rejected)
    FIR, PLI, RRR, RawPacket   nothing: Marshal cannot fail
    REMB     (P) at most 255 SSRCs; (P) bitrate not negative — as `f32Neg bits = false` on the IEEE-754 bit pattern.
             Nothing else: the exponent guard `exp >= 64` can never fire because the bitrate is clamped to 0x3FFFF·2^63
             first (`rembEncBitrate_ok`). For NaN patterns the model says: sign bit clear → clamped and accepted, sign bit
             set → rejected; NaN is outside the model/Go correspondence (DESIGN: `uint(NaN)` is implementation-defined).
    CCFB     (P) every report block has at most 16384 metric blocks.  Nothing else: in particular NO bound on the total
             size (the 16-bit length field wraps silently for oversized packets: known finding KF-LEN-WRAP), and a metric
             block itself cannot fail (`ecn`, `ato` are masked).
    XR       (S) `XR.shaped`: every block has as many scalars / element entries as the struct layout of its dynamic type
             demands. Every Go value meets this (the Go struct types guarantee it); an ill-shaped model value makes the
             model `panic` ("cannot be built in Go"), never `err`. XR has NO wire limit: `xr_enc_ne_err`.
    TWCC     (E) header count/FMT ≤ 31 (the header is the caller's); (E) a status-vector chunk holds at most 14 one-bit
             or 7 two-bit symbols; (P) every receive delta has type 1 with 0 ≤ δ/250 ≤ 255 or type 2 with
             −32768 ≤ δ/250 ≤ 32767.  Marshal additionally computes sizes in uint16 and can panic or truncate when
             20 + 2·chunks + Σ delta sizes exceeds 65532: the converse direction carries `Twcc.fitsSize`.
-/
import Rtcp.Proofs.C08
import Rtcp.Proofs.C05d
import Rtcp.Lemmas.RembRT
import Rtcp.Lemmas.CcfbRT
namespace Rtcp.C08
open Rtcp Gen Out C05
set_option linter.unusedSimpArgs false
set_option linter.unusedVariables false

/-! ## generic helpers -/

/-- the common shape of the encoders' member loops -/
def encList {α : Type} (f : α → Out Bytes) : List α → Out Bytes
  | [] => .ok []
  | x :: xs => do
    let a ← f x
    let rest ← encList f xs
    pure (a ++ rest)

theorem encList_ok {α : Type} (f : α → Out Bytes) (good : α → Bool) (h1 : ∀ x, good x = true → ∃ b, f x = .ok b)
    (xs : List α) (hx : xs.all good = true) : ∃ b, encList f xs = .ok b := by
  induction xs with
  | nil => exact ⟨[], rfl⟩
  | cons x xs ih =>
    simp only [List.all_cons, Bool.and_eq_true] at hx
    obtain ⟨a, ha⟩ := h1 x hx.1
    obtain ⟨r, hr⟩ := ih hx.2
    exact ⟨a ++ r, by simp only [encList]; rw [ha, bind_ok, hr, bind_ok]; rfl⟩

theorem encList_err {α : Type} (f : α → Out Bytes) (good : α → Bool) (h1 : ∀ x, good x = true → ∃ b, f x = .ok b)
    (h2 : ∀ x, good x = false → f x = .err) (xs : List α) (hx : xs.all good = false) : encList f xs = .err := by
  induction xs with
  | nil => simp at hx
  | cons x xs ih =>
    simp only [encList]
    cases hg : good x with
    | false => rw [h2 x hg]; rfl
    | true =>
      obtain ⟨a, ha⟩ := h1 x hg
      simp only [List.all_cons, hg, Bool.true_and] at hx
      rw [ha, bind_ok, ih hx]; rfl

/-- an encoder that answers `ok` inside a Boolean condition and `err` outside it succeeds exactly inside it -/
theorem iff_of {α : Type} {o : Out α} {c : Bool} (h1 : c = true → ∃ b, o = .ok b) (h2 : c = false → o = .err) :
    (∃ b, o = .ok b) ↔ c = true := by
  constructor
  · intro ⟨b, hb⟩
    cases hc : c with
    | true => rfl
    | false => rw [h2 hc] at hb; cases hb
  · exact h1

theorem header_ok (h : Header) (hc : h.count ≤ 31) : ∃ b, h.enc = .ok b := ⟨_, Header.enc_ok h hc⟩

theorem header_err (h : Header) (hc : ¬ h.count ≤ 31) : h.enc = .err := by
  unfold Header.enc; rw [if_pos (by omega)]

/-! ## SR / RR -/

def ReceptionReport.withinLimits (r : ReceptionReport) : Bool := decide (r.totalLost < 16777216)

def SenderReport.withinLimits (v : SenderReport) : Bool :=
  decide (v.reports.length ≤ 31) && v.reports.all ReceptionReport.withinLimits

def ReceiverReport.withinLimits (v : ReceiverReport) : Bool :=
  decide (v.reports.length ≤ 31) && v.reports.all ReceptionReport.withinLimits

theorem ReceptionReport.ok_of_limits (r : ReceptionReport) (h : ReceptionReport.withinLimits r = true) : ∃ b, r.enc = .ok b := by
  simp only [ReceptionReport.withinLimits, decide_eq_true_eq] at h
  unfold ReceptionReport.enc; rw [if_neg (by omega)]; exact ⟨_, rfl⟩

theorem ReceptionReport.err_of_limits (r : ReceptionReport) (h : ReceptionReport.withinLimits r = false) : r.enc = .err := by
  simp only [ReceptionReport.withinLimits, decide_eq_false_iff_not] at h
  unfold ReceptionReport.enc; rw [if_pos (by omega)]

theorem encReports_eq (rs : List ReceptionReport) : encReports rs = encList ReceptionReport.enc rs := by
  induction rs with
  | nil => rfl
  | cons r rs ih => simp only [encReports, encList, ih]

theorem encReports_ok (rs : List ReceptionReport) (h : rs.all ReceptionReport.withinLimits = true) : ∃ b, encReports rs = .ok b := by
  rw [encReports_eq]; exact encList_ok _ _ ReceptionReport.ok_of_limits rs h

theorem encReports_err (rs : List ReceptionReport) (h : rs.all ReceptionReport.withinLimits = false) : encReports rs = .err := by
  rw [encReports_eq]; exact encList_err _ _ ReceptionReport.ok_of_limits ReceptionReport.err_of_limits rs h

theorem SenderReport.ok_of_limits (v : SenderReport) (h : SenderReport.withinLimits v = true) : ∃ b, v.enc = .ok b := by
  simp only [SenderReport.withinLimits, Bool.and_eq_true, decide_eq_true_eq] at h
  obtain ⟨reps, hr⟩ := encReports_ok _ h.2
  obtain ⟨hb, hh⟩ := header_ok v.header (by show v.reports.length % 256 ≤ 31; omega)
  unfold SenderReport.enc
  rw [hr, bind_ok, if_neg (by simp only [countMax]; omega), hh, bind_ok]
  exact ⟨_, rfl⟩

theorem SenderReport.err_of_limits (v : SenderReport) (h : SenderReport.withinLimits v = false) : v.enc = .err := by
  unfold SenderReport.enc
  cases hr : v.reports.all ReceptionReport.withinLimits with
  | false => rw [encReports_err _ hr]; rfl
  | true =>
    obtain ⟨reps, hreps⟩ := encReports_ok _ hr
    simp only [SenderReport.withinLimits, hr, Bool.and_true, decide_eq_false_iff_not] at h
    rw [hreps, bind_ok, if_pos (by simp only [countMax]; omega)]

theorem ReceiverReport.ok_of_limits (v : ReceiverReport) (h : ReceiverReport.withinLimits v = true) : ∃ b, v.enc = .ok b := by
  simp only [ReceiverReport.withinLimits, Bool.and_eq_true, decide_eq_true_eq] at h
  obtain ⟨reps, hr⟩ := encReports_ok _ h.2
  obtain ⟨hb, hh⟩ := header_ok v.header (by show v.reports.length % 256 ≤ 31; omega)
  unfold ReceiverReport.enc
  rw [hr, bind_ok, if_neg (by simp only [countMax]; omega), hh, bind_ok]
  exact ⟨_, rfl⟩

theorem ReceiverReport.err_of_limits (v : ReceiverReport) (h : ReceiverReport.withinLimits v = false) : v.enc = .err := by
  unfold ReceiverReport.enc
  cases hr : v.reports.all ReceptionReport.withinLimits with
  | false => rw [encReports_err _ hr]; rfl
  | true =>
    obtain ⟨reps, hreps⟩ := encReports_ok _ hr
    simp only [ReceiverReport.withinLimits, hr, Bool.and_true, decide_eq_false_iff_not] at h
    rw [hreps, bind_ok, if_pos (by simp only [countMax]; omega)]

/-! ## SDES -/

def SDESItem.withinLimits (i : SDESItem) : Bool := decide (i.type ≠ 0) && decide (i.text.length ≤ 255)

def SDESChunk.withinLimits (c : SDESChunk) : Bool := c.items.all SDESItem.withinLimits

def SourceDescription.withinLimits (v : SourceDescription) : Bool :=
  decide (v.chunks.length ≤ 31) && v.chunks.all SDESChunk.withinLimits

theorem SDESItem.ok_of_limits (i : SDESItem) (h : SDESItem.withinLimits i = true) : ∃ b, i.enc = .ok b := by
  simp only [SDESItem.withinLimits, Bool.and_eq_true, decide_eq_true_eq] at h
  unfold SDESItem.enc
  rw [if_neg (by simp only [SDESEnd]; exact h.1), if_neg (by simp only [sdesMaxOctetCount]; omega)]
  exact ⟨_, rfl⟩

theorem SDESItem.err_of_limits (i : SDESItem) (h : SDESItem.withinLimits i = false) : i.enc = .err := by
  unfold SDESItem.enc
  by_cases ht : i.type = 0
  · rw [if_pos (by simp only [SDESEnd]; exact ht)]
  · simp only [SDESItem.withinLimits, ht, ne_eq, not_false_eq_true, decide_true, Bool.true_and, decide_eq_false_iff_not] at h
    rw [if_neg (by simp only [SDESEnd]; exact ht), if_pos (by simp only [sdesMaxOctetCount]; omega)]

theorem encItems_eq (is : List SDESItem) : encItems is = encList SDESItem.enc is := by
  induction is with
  | nil => rfl
  | cons r rs ih => simp only [encItems, encList, ih]

theorem SDESChunk.ok_of_limits (c : SDESChunk) (h : SDESChunk.withinLimits c = true) : ∃ b, c.enc = .ok b := by
  obtain ⟨its, hi⟩ := encList_ok _ _ SDESItem.ok_of_limits c.items h
  unfold SDESChunk.enc
  rw [encItems_eq, hi, bind_ok]
  exact ⟨_, rfl⟩

theorem SDESChunk.err_of_limits (c : SDESChunk) (h : SDESChunk.withinLimits c = false) : c.enc = .err := by
  unfold SDESChunk.enc
  rw [encItems_eq, encList_err _ _ SDESItem.ok_of_limits SDESItem.err_of_limits c.items h]; rfl

theorem encChunks_eq (cs : List SDESChunk) : encChunks cs = encList SDESChunk.enc cs := by
  induction cs with
  | nil => rfl
  | cons r rs ih => simp only [encChunks, encList, ih]

theorem SourceDescription.ok_of_limits (v : SourceDescription) (h : SourceDescription.withinLimits v = true) : ∃ b, v.enc = .ok b := by
  simp only [SourceDescription.withinLimits, Bool.and_eq_true, decide_eq_true_eq] at h
  obtain ⟨cs, hc⟩ := encList_ok _ _ SDESChunk.ok_of_limits v.chunks h.2
  obtain ⟨hb, hh⟩ := header_ok v.header (by show v.chunks.length % 256 ≤ 31; omega)
  unfold SourceDescription.enc
  rw [encChunks_eq, hc, bind_ok, if_neg (by simp only [countMax]; omega), hh, bind_ok]
  exact ⟨_, rfl⟩

theorem SourceDescription.err_of_limits (v : SourceDescription) (h : SourceDescription.withinLimits v = false) : v.enc = .err := by
  unfold SourceDescription.enc
  rw [encChunks_eq]
  cases hr : v.chunks.all SDESChunk.withinLimits with
  | false => rw [encList_err _ _ SDESChunk.ok_of_limits SDESChunk.err_of_limits _ hr]; rfl
  | true =>
    obtain ⟨cs, hc⟩ := encList_ok _ _ SDESChunk.ok_of_limits v.chunks hr
    simp only [SourceDescription.withinLimits, hr, Bool.and_true, decide_eq_false_iff_not] at h
    rw [hc, bind_ok, if_pos (by simp only [countMax]; omega)]

/-! ## BYE / APP -/

def Goodbye.withinLimits (v : Goodbye) : Bool := decide (v.sources.length ≤ 31) && decide (v.reason.length ≤ 255)

/-- name of exactly 4 octets, subtype ≤ 31 (property text), and data ≤ 65523 octets (enforced, not in the property text) -/
def ApplicationDefined.withinLimits (v : ApplicationDefined) : Bool :=
  decide (v.name.length = 4) && decide (v.subType ≤ 31) && decide (v.data.length ≤ 65523)

theorem Goodbye.ok_of_limits (v : Goodbye) (h : Goodbye.withinLimits v = true) : ∃ b, v.enc = .ok b := by
  simp only [Goodbye.withinLimits, Bool.and_eq_true, decide_eq_true_eq] at h
  obtain ⟨hb, hh⟩ := header_ok v.header (by show v.sources.length % 256 ≤ 31; omega)
  unfold Goodbye.enc
  rw [if_neg (by simp only [countMax]; omega), if_neg (by simp only [sdesMaxOctetCount]; omega), hh, bind_ok]
  exact ⟨_, rfl⟩

theorem Goodbye.err_of_limits (v : Goodbye) (h : Goodbye.withinLimits v = false) : v.enc = .err := by
  unfold Goodbye.enc
  by_cases hs : v.sources.length ≤ 31
  · simp only [Goodbye.withinLimits, hs, decide_true, Bool.true_and, decide_eq_false_iff_not] at h
    rw [if_neg (by simp only [countMax]; omega), if_pos (by simp only [sdesMaxOctetCount]; omega)]
  · rw [if_pos (by simp only [countMax]; omega)]

theorem ApplicationDefined.ok_of_limits (v : ApplicationDefined) (h : ApplicationDefined.withinLimits v = true) : ∃ b, v.enc = .ok b := by
  simp only [ApplicationDefined.withinLimits, Bool.and_eq_true, decide_eq_true_eq] at h
  obtain ⟨⟨h1, h2⟩, h3⟩ := h
  unfold ApplicationDefined.enc
  rw [if_neg (by omega), if_neg (by omega)]
  dsimp only
  rw [Header.enc_ok _ h2, bind_ok]
  exact ⟨_, rfl⟩

theorem ApplicationDefined.err_of_limits (v : ApplicationDefined) (h : ApplicationDefined.withinLimits v = false) : v.enc = .err := by
  unfold ApplicationDefined.enc
  by_cases h3 : v.data.length ≤ 65523
  · by_cases h1 : v.name.length = 4
    · simp only [ApplicationDefined.withinLimits, h1, h3, decide_true, Bool.true_and, Bool.and_true, decide_eq_false_iff_not] at h
      rw [if_neg (by omega), if_neg (by omega)]
      dsimp only
      rw [header_err _ h]; rfl
    · rw [if_neg (by omega), if_pos h1]
  · rw [if_pos (by omega)]

/-! ## the RTP feedback kinds without a named limit -/

/-- not in the property text: `len(Nacks) + 2 > 255` is rejected -/
def TransportLayerNack.withinLimits (v : TransportLayerNack) : Bool := decide (v.nacks.length ≤ 253)

/-- not in the property text: `len(SLI) + 2 > 255` is rejected -/
def SliceLossIndication.withinLimits (v : SliceLossIndication) : Bool := decide (v.sli.length ≤ 253)

theorem TransportLayerNack.ok_of_limits (v : TransportLayerNack) (h : TransportLayerNack.withinLimits v = true) : ∃ b, v.enc = .ok b := by
  simp only [TransportLayerNack.withinLimits, decide_eq_true_eq] at h
  obtain ⟨hb, hh⟩ := header_ok v.header (by show FormatTLN ≤ 31; decide)
  unfold TransportLayerNack.enc
  rw [if_neg (by simp only [tlnLength]; omega), hh, bind_ok]
  exact ⟨_, rfl⟩

theorem TransportLayerNack.err_of_limits (v : TransportLayerNack) (h : TransportLayerNack.withinLimits v = false) : v.enc = .err := by
  simp only [TransportLayerNack.withinLimits, decide_eq_false_iff_not] at h
  unfold TransportLayerNack.enc
  rw [if_pos (by simp only [tlnLength]; omega)]

theorem SliceLossIndication.ok_of_limits (v : SliceLossIndication) (h : SliceLossIndication.withinLimits v = true) : ∃ b, v.enc = .ok b := by
  simp only [SliceLossIndication.withinLimits, decide_eq_true_eq] at h
  obtain ⟨hb, hh⟩ := header_ok v.header (by show FormatSLI ≤ 31; decide)
  unfold SliceLossIndication.enc
  rw [if_neg (by simp only [sliLength]; omega), hh, bind_ok]
  exact ⟨_, rfl⟩

theorem SliceLossIndication.err_of_limits (v : SliceLossIndication) (h : SliceLossIndication.withinLimits v = false) : v.enc = .err := by
  simp only [SliceLossIndication.withinLimits, decide_eq_false_iff_not] at h
  unfold SliceLossIndication.enc
  rw [if_pos (by simp only [sliLength]; omega)]

theorem FullIntraRequest.enc_always_ok (v : FullIntraRequest) : ∃ b, v.enc = .ok b := by
  obtain ⟨hb, hh⟩ := header_ok v.header (by show FormatFIR ≤ 31; decide)
  unfold FullIntraRequest.enc
  rw [hh, bind_ok]
  exact ⟨_, rfl⟩

theorem PictureLossIndication.enc_always_ok (v : PictureLossIndication) : ∃ b, v.enc = .ok b := by
  obtain ⟨hb, hh⟩ := header_ok v.header (by show FormatPLI ≤ 31; decide)
  unfold PictureLossIndication.enc
  rw [hh, bind_ok]
  exact ⟨_, rfl⟩

theorem RapidResync.enc_always_ok (v : RapidResync) : ∃ b, v.enc = .ok b := by
  obtain ⟨hb, hh⟩ := header_ok v.header (by show FormatRRR ≤ 31; decide)
  unfold RapidResync.enc
  rw [hh, bind_ok]
  exact ⟨_, rfl⟩

/-! ## REMB -/

/-- at most 255 SSRCs, bitrate not negative. (The `exp >= 64` guard of the encoder can never fire: `rembEncBitrate_ok`.) -/
def Remb.withinLimits (v : Remb) : Bool := decide (v.ssrcs.length ≤ 255) && !f32Neg v.bitrate

/-- every bit pattern that is not negative — +Inf, values above 0x3FFFF·2^63, −0 and sign-clear NaN patterns included —
gets a mantissa/exponent pair: the clamp to 0x3FFFF·2^63 keeps the exponent below 64 -/
theorem rembEncBitrate_ok (bits : Nat) (h : f32Neg bits = false) : ∃ m e, rembEncBitrate bits = .ok (m, e) := by
  by_cases hs : f32Sign bits = 0
  · exact ⟨_, _, (rembEncBitrate_spec bits hs).1⟩
  · have hs1 : f32Sign bits = 1 := by unfold f32Sign at *; omega
    unfold rembEncBitrate
    dsimp only
    rw [if_neg (by rw [h]; simp), if_pos hs1]
    exact ⟨0, 0, rfl⟩

theorem rembEncBitrate_err (bits : Nat) (h : f32Neg bits = true) : rembEncBitrate bits = .err := by
  unfold rembEncBitrate
  dsimp only
  rw [if_pos h]

theorem Remb.ok_of_limits (v : Remb) (h : Remb.withinLimits v = true) : ∃ b, v.enc = .ok b := by
  simp only [Remb.withinLimits, Bool.and_eq_true, decide_eq_true_eq, Bool.not_eq_true'] at h
  obtain ⟨m, e, hb⟩ := rembEncBitrate_ok v.bitrate h.2
  unfold Remb.enc
  rw [if_neg (by omega), hb, bind_ok]
  exact ⟨_, rfl⟩

theorem Remb.err_of_limits (v : Remb) (h : Remb.withinLimits v = false) : v.enc = .err := by
  unfold Remb.enc
  by_cases hs : v.ssrcs.length ≤ 255
  · simp only [Remb.withinLimits, hs, decide_true, Bool.true_and, Bool.not_eq_false'] at h
    rw [if_neg (by omega), rembEncBitrate_err _ h]; rfl
  · rw [if_pos (by omega)]

/-! ## CCFB -/

def CcfbBlock.withinLimits (b : CcfbBlock) : Bool := decide (b.metrics.length ≤ 16384)

/-- every report block has at most 16384 metric blocks; nothing else (no bound on the total size: KF-LEN-WRAP) -/
def Ccfb.withinLimits (v : Ccfb) : Bool := v.blocks.all CcfbBlock.withinLimits

theorem CcfbBlock.ok_of_limits (b : CcfbBlock) (h : CcfbBlock.withinLimits b = true) : ∃ x, b.enc = .ok x := by
  simp only [CcfbBlock.withinLimits, decide_eq_true_eq] at h
  exact ⟨_, CcfbBlock.enc_ok b h⟩

theorem CcfbBlock.err_of_limits (b : CcfbBlock) (h : CcfbBlock.withinLimits b = false) : b.enc = .err := by
  simp only [CcfbBlock.withinLimits, decide_eq_false_iff_not] at h
  unfold CcfbBlock.enc
  rw [if_pos (by simp only [maxMetricBlocks]; omega)]

theorem encBlocks_eq (bs : List CcfbBlock) : encBlocks bs = encList CcfbBlock.enc bs := by
  induction bs with
  | nil => rfl
  | cons r rs ih => simp only [encBlocks, encList, ih]

theorem Ccfb.ok_of_limits (v : Ccfb) (h : Ccfb.withinLimits v = true) : ∃ b, v.enc = .ok b := by
  obtain ⟨bs, hb⟩ := encList_ok _ _ CcfbBlock.ok_of_limits v.blocks h
  obtain ⟨hd, hh⟩ := header_ok v.header (by show FormatCCFB ≤ 31; decide)
  unfold Ccfb.enc
  rw [hh, bind_ok, encBlocks_eq, hb, bind_ok]
  exact ⟨_, rfl⟩

theorem Ccfb.err_of_limits (v : Ccfb) (h : Ccfb.withinLimits v = false) : v.enc = .err := by
  obtain ⟨hd, hh⟩ := header_ok v.header (by show FormatCCFB ≤ 31; decide)
  unfold Ccfb.enc
  rw [hh, bind_ok, encBlocks_eq, encList_err _ _ CcfbBlock.ok_of_limits CcfbBlock.err_of_limits v.blocks h]; rfl

/-! ## XR: no wire limit; the only way not to get bytes is an ill-shaped (not Go-constructible) model value -/

/-- the writer of one slice element needs one value per width -/
def elemShaped (ws vs : List Nat) : Bool := decide (ws.length ≤ vs.length)

/-- `nvals` scalars and the slice elements `es` are enough for the layout `items` (and the layout has no member the
reflective writer rejects) -/
def itemsShaped : List Item → Nat → List (List Nat) → Bool
  | [], _, _ => true
  | .scalar _ _ :: is, n + 1, es => itemsShaped is n es
  | .scalar _ _ :: _, 0, _ => false
  | .skip _ :: is, n, es => itemsShaped is n es
  | .omitted _ :: is, n, es => itemsShaped is n es
  | .sliceOf _ ws :: is, n, es => es.all (elemShaped ws) && itemsShaped is n es
  | .blocks _ :: _, _, _ => false
  | .bad _ :: _, _, _ => false

/-- the layout has only members the reflective writer accepts (true of every generated block layout: `layouts_plain`) -/
def itemsPlain : List Item → Bool
  | [] => true
  | .blocks _ :: _ => false
  | .bad _ :: _ => false
  | _ :: is => itemsPlain is

theorem layouts_plain : ∀ k, itemsPlain (layoutOf k).items = true := by
  intro k
  unfold layoutOf
  split <;> decide

/-- three header scalars plus the block's own, and the trailing slice, fit the struct layout of the dynamic type -/
def XRBlock.shaped (b : XRBlock) : Bool := itemsShaped (layoutOf b.kind).items (3 + b.vals.length) b.elems

/-- (S) not a limit: every Go `ExtendedReport` value has this shape -/
def XR.shaped (v : XR) : Bool := v.blocks.all XRBlock.shaped

theorem writeElem_ok_of (ws vs : List Nat) (h : elemShaped ws vs = true) : ∃ b, writeElem ws vs = .ok b := by
  induction ws generalizing vs with
  | nil => exact ⟨[], by unfold writeElem; rfl⟩
  | cons w ws ih =>
    cases vs with
    | nil => simp [elemShaped] at h
    | cons x vs =>
      obtain ⟨r, hr⟩ := ih vs (by simp only [elemShaped, List.length_cons, decide_eq_true_eq] at h ⊢; omega)
      exact ⟨_, by simp only [writeElem]; rw [hr, bind_ok]; rfl⟩

theorem writeElem_panic_of (ws vs : List Nat) (h : elemShaped ws vs = false) : writeElem ws vs = .panic := by
  induction ws generalizing vs with
  | nil => simp [elemShaped] at h
  | cons w ws ih =>
    cases vs with
    | nil => rfl
    | cons x vs =>
      simp only [writeElem]
      rw [ih vs (by simp only [elemShaped, List.length_cons, decide_eq_false_iff_not] at h ⊢; omega)]; rfl

theorem writeElems_ok_of (ws : List Nat) (es : List (List Nat)) (h : es.all (elemShaped ws) = true) : ∃ b, writeElems ws es = .ok b := by
  induction es with
  | nil => exact ⟨[], rfl⟩
  | cons e es ih =>
    simp only [List.all_cons, Bool.and_eq_true] at h
    obtain ⟨a, ha⟩ := writeElem_ok_of ws e h.1
    obtain ⟨r, hr⟩ := ih h.2
    exact ⟨_, by simp only [writeElems]; rw [ha, bind_ok, hr, bind_ok]; rfl⟩

theorem writeElems_panic_of (ws : List Nat) (es : List (List Nat)) (h : es.all (elemShaped ws) = false) : writeElems ws es = .panic := by
  induction es with
  | nil => simp at h
  | cons e es ih =>
    simp only [writeElems]
    cases he : elemShaped ws e with
    | false => rw [writeElem_panic_of ws e he]; rfl
    | true =>
      obtain ⟨a, ha⟩ := writeElem_ok_of ws e he
      simp only [List.all_cons, he, Bool.true_and] at h
      rw [ha, bind_ok, ih h]; rfl

theorem writeItems_ok_of (items : List Item) (vs : List Nat) (es : List (List Nat))
    (h : itemsShaped items vs.length es = true) : ∃ b, writeItems items vs es = .ok b := by
  induction items generalizing vs with
  | nil => exact ⟨[], by simp only [writeItems]⟩
  | cons it is ih =>
    cases it with
    | scalar n w =>
      cases vs with
      | nil => simp [itemsShaped] at h
      | cons x vs =>
        obtain ⟨r, hr⟩ := ih vs (by simpa only [itemsShaped, List.length_cons] using h)
        exact ⟨_, by simp only [writeItems]; rw [hr, bind_ok]; rfl⟩
    | skip w =>
      obtain ⟨r, hr⟩ := ih vs (by simpa only [itemsShaped] using h)
      exact ⟨_, by simp only [writeItems]; rw [hr, bind_ok]; rfl⟩
    | omitted n =>
      obtain ⟨r, hr⟩ := ih vs (by simpa only [itemsShaped] using h)
      exact ⟨r, by simp only [writeItems]; exact hr⟩
    | sliceOf n ws =>
      simp only [itemsShaped, Bool.and_eq_true] at h
      obtain ⟨a, ha⟩ := writeElems_ok_of ws es h.1
      obtain ⟨r, hr⟩ := ih vs h.2
      exact ⟨_, by simp only [writeItems]; rw [ha, bind_ok, hr, bind_ok]; rfl⟩
    | blocks n => simp [itemsShaped] at h
    | bad n => simp [itemsShaped] at h

theorem writeItems_panic_of (items : List Item) (vs : List Nat) (es : List (List Nat)) (hp : itemsPlain items = true)
    (h : itemsShaped items vs.length es = false) : writeItems items vs es = .panic := by
  induction items generalizing vs with
  | nil => simp [itemsShaped] at h
  | cons it is ih =>
    cases it with
    | scalar n w =>
      cases vs with
      | nil => simp only [writeItems]
      | cons x vs =>
        simp only [writeItems]
        rw [ih vs (by simpa only [itemsPlain] using hp) (by simpa only [itemsShaped, List.length_cons] using h)]; rfl
    | skip w =>
      simp only [writeItems]
      rw [ih vs (by simpa only [itemsPlain] using hp) (by simpa only [itemsShaped] using h)]; rfl
    | omitted n =>
      simp only [writeItems]
      exact ih vs (by simpa only [itemsPlain] using hp) (by simpa only [itemsShaped] using h)
    | sliceOf n ws =>
      simp only [writeItems]
      cases he : es.all (elemShaped ws) with
      | false => rw [writeElems_panic_of ws es he]; rfl
      | true =>
        obtain ⟨a, ha⟩ := writeElems_ok_of ws es he
        simp only [itemsShaped, he, Bool.true_and] at h
        rw [ha, bind_ok, ih vs (by simpa only [itemsPlain] using hp) h]; rfl
    | blocks n => simp [itemsPlain] at hp
    | bad n => simp [itemsPlain] at hp

theorem XRBlock.scalars_length (b : XRBlock) : b.scalars.length = 3 + b.vals.length := by
  simp only [XRBlock.scalars, List.length_append, List.length_cons, List.length_nil]

theorem XRBlock.ok_of_shaped (b : XRBlock) (h : XRBlock.shaped b = true) : ∃ x, b.enc = .ok x := by
  unfold XRBlock.enc
  exact writeItems_ok_of _ _ _ (by rw [XRBlock.scalars_length]; exact h)

theorem XRBlock.panic_of_unshaped (b : XRBlock) (h : XRBlock.shaped b = false) : b.enc = .panic := by
  unfold XRBlock.enc
  exact writeItems_panic_of _ _ _ (layouts_plain b.kind) (by rw [XRBlock.scalars_length]; exact h)

/-- `setupBlockHeader` rewrites the three header scalars only: the shape is that of the caller's block -/
theorem XRBlock.setup_shaped (b : XRBlock) : XRBlock.shaped b.setup = XRBlock.shaped b := rfl

theorem encXRBlocks_ok_of (bs : List XRBlock) (h : bs.all XRBlock.shaped = true) : ∃ x, encXRBlocks bs = .ok x := by
  induction bs with
  | nil => exact ⟨[], rfl⟩
  | cons b bs ih =>
    simp only [List.all_cons, Bool.and_eq_true] at h
    obtain ⟨a, ha⟩ := XRBlock.ok_of_shaped b h.1
    obtain ⟨r, hr⟩ := ih h.2
    exact ⟨_, by simp only [encXRBlocks]; rw [ha, bind_ok, hr, bind_ok]; rfl⟩

theorem encXRBlocks_panic_of (bs : List XRBlock) (h : bs.all XRBlock.shaped = false) : encXRBlocks bs = .panic := by
  induction bs with
  | nil => simp at h
  | cons b bs ih =>
    simp only [encXRBlocks]
    cases hb : XRBlock.shaped b with
    | false => rw [XRBlock.panic_of_unshaped b hb]; rfl
    | true =>
      obtain ⟨a, ha⟩ := XRBlock.ok_of_shaped b hb
      simp only [List.all_cons, hb, Bool.true_and] at h
      rw [ha, bind_ok, ih h]; rfl

theorem XR.setup_all_shaped (v : XR) : (v.blocks.map XRBlock.setup).all XRBlock.shaped = XR.shaped v := by
  unfold XR.shaped
  rw [List.all_map]
  rfl

theorem XR.ok_of_shaped (v : XR) (h : XR.shaped v = true) : ∃ x, v.enc = .ok x := by
  obtain ⟨bs, hb⟩ := encXRBlocks_ok_of (v.blocks.map XRBlock.setup) (by rw [XR.setup_all_shaped]; exact h)
  unfold XR.enc
  dsimp only
  rw [Header.enc_ok _ (by show 0 ≤ 31; omega), bind_ok, hb, bind_ok]
  exact ⟨_, rfl⟩

theorem XR.panic_of_unshaped (v : XR) (h : XR.shaped v = false) : v.enc = .panic := by
  unfold XR.enc
  dsimp only
  rw [Header.enc_ok _ (by show 0 ≤ 31; omega), bind_ok,
    encXRBlocks_panic_of (v.blocks.map XRBlock.setup) (by rw [XR.setup_all_shaped]; exact h)]; rfl

/-! ## TWCC -/

theorem setN_ok (src size start val : Nat) (h : (start + size) % 65536 ≤ 16) : ∃ d, setNBitsOfUint16 src size start val = .ok d := by
  unfold setNBitsOfUint16; rw [if_neg (by omega)]; exact ⟨_, rfl⟩

theorem setN_err (src size start val : Nat) (h : (start + size) % 65536 > 16) : setNBitsOfUint16 src size start val = .err := by
  unfold setNBitsOfUint16; rw [if_pos h]

/-- the symbol writer succeeds while fewer than `cap` symbols have been placed … -/
theorem svSet_ok (nb cap : Nat) (hstep : ∀ i, i < cap → (((nb * (i % 65536)) % 65536 + 2) % 65536 + nb) % 65536 ≤ 16)
    (syms : List Nat) (i dst : Nat) (h : i + syms.length ≤ cap) : ∃ d, svSetSymbols nb i syms dst = .ok d := by
  induction syms generalizing i dst with
  | nil => exact ⟨dst, by rw [svSetSymbols]⟩
  | cons s ss ih =>
    simp only [List.length_cons] at h
    obtain ⟨d, hd⟩ := setN_ok dst nb (((nb * (i % 65536)) % 65536 + 2) % 65536) s (hstep i (by omega))
    rw [svSetSymbols, hd, bind_ok]
    exact ih (i + 1) d (by omega)

/-- … and fails at symbol number `cap` -/
theorem svSet_err (nb cap : Nat) (hstep : ∀ i, i < cap → (((nb * (i % 65536)) % 65536 + 2) % 65536 + nb) % 65536 ≤ 16)
    (hcap : (((nb * (cap % 65536)) % 65536 + 2) % 65536 + nb) % 65536 > 16)
    (syms : List Nat) (i dst : Nat) (hi : i ≤ cap) (h : cap < i + syms.length) : svSetSymbols nb i syms dst = .err := by
  induction syms generalizing i dst with
  | nil => simp only [List.length_nil] at h; omega
  | cons s ss ih =>
    simp only [List.length_cons] at h
    rw [svSetSymbols]
    by_cases hic : i = cap
    · subst hic
      rw [setN_err _ _ _ _ hcap]; rfl
    · obtain ⟨d, hd⟩ := setN_ok dst nb (((nb * (i % 65536)) % 65536 + 2) % 65536) s (hstep i (by omega))
      rw [hd, bind_ok]
      exact ih (i + 1) d (by omega) (by omega)

/-- not in the property text: a status-vector chunk holds at most 14 one-bit or 7 two-bit symbols (a chunk with any other
symbol-size value writes no symbols and cannot fail); a run-length chunk cannot fail -/
def TwccChunk.withinLimits : TwccChunk → Bool
  | .rl _ _ _ => true
  | .sv _ symSize syms =>
    if symSize = 0 then decide (syms.length ≤ 14)
    else if symSize = 1 then decide (syms.length ≤ 7)
    else true

theorem TwccChunk.ok_of_limits (c : TwccChunk) (h : TwccChunk.withinLimits c = true) : ∃ b, c.enc = .ok b := by
  cases c with
  | rl t sym run => exact ⟨_, C16.rl_enc t sym run⟩
  | sv t ss syms =>
    obtain ⟨d0, h0⟩ := setN_ok 0 1 0 1 (by omega)
    obtain ⟨d1, h1⟩ := setN_ok d0 1 1 ss (by omega)
    simp only [TwccChunk.enc]
    rw [h0, bind_ok, h1, bind_ok]
    simp only [TwccChunk.withinLimits] at h
    simp only [TypeTCCSymbolSizeOneBit, TypeTCCSymbolSizeTwoBit]
    by_cases hs0 : ss = 0
    · rw [if_pos hs0] at h ⊢
      simp only [decide_eq_true_eq] at h
      obtain ⟨d, hd⟩ := svSet_ok 1 14 (by intro i hi; omega) syms 0 d1 (by omega)
      rw [hd, bind_ok]; exact ⟨_, rfl⟩
    · rw [if_neg hs0] at h ⊢
      by_cases hs1 : ss = 1
      · rw [if_pos hs1] at h ⊢
        simp only [decide_eq_true_eq] at h
        obtain ⟨d, hd⟩ := svSet_ok 2 7 (by intro i hi; omega) syms 0 d1 (by omega)
        rw [hd, bind_ok]; exact ⟨_, rfl⟩
      · rw [if_neg hs1]
        obtain ⟨d, hd⟩ := svSet_ok 0 (0 + syms.length) (by intro i hi; omega) syms 0 d1 (Nat.le_refl _)
        rw [hd, bind_ok]; exact ⟨_, rfl⟩

theorem TwccChunk.err_of_limits (c : TwccChunk) (h : TwccChunk.withinLimits c = false) : c.enc = .err := by
  cases c with
  | rl t sym run => simp [TwccChunk.withinLimits] at h
  | sv t ss syms =>
    obtain ⟨d0, h0⟩ := setN_ok 0 1 0 1 (by omega)
    obtain ⟨d1, h1⟩ := setN_ok d0 1 1 ss (by omega)
    simp only [TwccChunk.enc]
    rw [h0, bind_ok, h1, bind_ok]
    simp only [TwccChunk.withinLimits] at h
    simp only [TypeTCCSymbolSizeOneBit, TypeTCCSymbolSizeTwoBit]
    by_cases hs0 : ss = 0
    · rw [if_pos hs0] at h ⊢
      simp only [decide_eq_false_iff_not] at h
      rw [svSet_err 1 14 (by intro i hi; omega) (by omega) syms 0 d1 (by omega) (by omega)]; rfl
    · rw [if_neg hs0] at h ⊢
      by_cases hs1 : ss = 1
      · rw [if_pos hs1] at h ⊢
        simp only [decide_eq_false_iff_not] at h
        rw [svSet_err 2 7 (by intro i hi; omega) (by omega) syms 0 d1 (by omega) (by omega)]; rfl
      · rw [if_neg hs1] at h; cases h

theorem encTwccChunks_eq (cs : List TwccChunk) : encTwccChunks cs = encList TwccChunk.enc cs := by
  induction cs with
  | nil => rfl
  | cons r rs ih => simp only [encTwccChunks, encList, ih]

/-- the receive delta, in 250 µs ticks (Go's truncating division), is inside the range of its 1- or 2-octet encoding -/
def RecvDelta.withinLimits (d : RecvDelta) : Bool :=
  decide ((d.type = 1 ∧ 0 ≤ tdiv d.delta 250 ∧ tdiv d.delta 250 ≤ 255) ∨
          (d.type = 2 ∧ -32768 ≤ tdiv d.delta 250 ∧ tdiv d.delta 250 ≤ 32767))

theorem RecvDelta.ok_of_limits (d : RecvDelta) (h : RecvDelta.withinLimits d = true) : ∃ b, d.enc = .ok b := by
  simp only [RecvDelta.withinLimits, decide_eq_true_eq] at h
  unfold RecvDelta.enc
  simp only [TypeTCCPacketReceivedSmallDelta, TypeTCCPacketReceivedLargeDelta, TypeTCCDeltaScaleFactor]
  rcases h with h | h
  · rw [if_pos h]; exact ⟨_, rfl⟩
  · rw [if_neg (by omega), if_pos h]; exact ⟨_, rfl⟩

theorem RecvDelta.err_of_limits (d : RecvDelta) (h : RecvDelta.withinLimits d = false) : d.enc = .err := by
  simp only [RecvDelta.withinLimits, decide_eq_false_iff_not] at h
  unfold RecvDelta.enc
  simp only [TypeTCCPacketReceivedSmallDelta, TypeTCCPacketReceivedLargeDelta, TypeTCCDeltaScaleFactor]
  rw [if_neg (fun hA => h (Or.inl hA)), if_neg (fun hB => h (Or.inr hB))]

theorem RecvDelta.advance_eq_size (d : RecvDelta) (h : RecvDelta.withinLimits d = true) : deltaAdvance d = deltaSize d := by
  simp only [RecvDelta.withinLimits, decide_eq_true_eq] at h
  unfold deltaAdvance deltaSize
  simp only [TypeTCCPacketReceivedSmallDelta, TypeTCCPacketReceivedLargeDelta]
  rcases h with h | h
  · rw [if_neg (by omega), if_pos h.1]
  · rw [if_pos h.1, if_neg (by omega)]

theorem copyInto_ok (buf : Bytes) (off : Nat) (data : Bytes) (h : off ≤ buf.length) :
    ∃ p, copyInto buf off data = .ok p ∧ p.length = buf.length := by
  have e : copyInto buf off data = .ok (buf.take off ++ data.take (min data.length (buf.length - off)) ++
      buf.drop (off + min data.length (buf.length - off))) := by
    unfold copyInto; rw [if_pos h]
  exact ⟨_, e, copyInto_length e⟩

theorem bind_ok_of {α β : Type} {o : Out α} {f : α → Out β} (P : α → Prop) (ho : ∃ a, o = .ok a ∧ P a)
    (hf : ∀ a, P a → ∃ b, f a = .ok b) : ∃ b, (o >>= f) = .ok b := by
  obtain ⟨a, ha, hp⟩ := ho
  rw [ha, bind_ok]; exact hf a hp

theorem bind_err_of {α β : Type} {o : Out α} {f : α → Out β} (P : α → Prop) (ho : ∃ a, o = .ok a ∧ P a)
    (hf : ∀ a, P a → f a = .err) : (o >>= f) = .err := by
  obtain ⟨a, ha, hp⟩ := ho
  rw [ha, bind_ok]; exact hf a hp

theorem writeDeltas_ok (ds : List RecvDelta) (payload : Bytes) (pos : Nat) (h : ds.all RecvDelta.withinLimits = true)
    (hp : pos + (ds.map deltaSize).sum ≤ payload.length) :
    ∃ p, writeDeltas ds payload pos = .ok p ∧ p.length = payload.length := by
  induction ds generalizing payload pos with
  | nil => exact ⟨payload, rfl, rfl⟩
  | cons d ds ih =>
    simp only [List.all_cons, Bool.and_eq_true] at h
    simp only [List.map_cons, List.sum_cons] at hp
    obtain ⟨a, ha⟩ := RecvDelta.ok_of_limits d h.1
    obtain ⟨q, hq, lq⟩ := copyInto_ok payload pos a (by omega)
    have hadv := RecvDelta.advance_eq_size d h.1
    obtain ⟨r, hr, lr⟩ := ih q (pos + deltaAdvance d) h.2 (by rw [lq, hadv]; omega)
    exact ⟨r, by rw [writeDeltas, ha, bind_ok, hq, bind_ok, hr], by rw [lr, lq]⟩

theorem writeDeltas_err (ds : List RecvDelta) (payload : Bytes) (pos : Nat) (h : ds.all RecvDelta.withinLimits = false)
    (hp : pos + (ds.map deltaSize).sum ≤ payload.length) : writeDeltas ds payload pos = .err := by
  induction ds generalizing payload pos with
  | nil => simp at h
  | cons d ds ih =>
    simp only [List.map_cons, List.sum_cons] at hp
    rw [writeDeltas]
    cases hd : RecvDelta.withinLimits d with
    | false => rw [RecvDelta.err_of_limits d hd]; rfl
    | true =>
      simp only [List.all_cons, hd, Bool.true_and] at h
      obtain ⟨a, ha⟩ := RecvDelta.ok_of_limits d hd
      obtain ⟨q, hq, lq⟩ := copyInto_ok payload pos a (by omega)
      have hadv := RecvDelta.advance_eq_size d hd
      rw [ha, bind_ok, hq, bind_ok]
      exact ih q (pos + deltaAdvance d) h (by rw [lq, hadv]; omega)

/-- header count/FMT ≤ 31 and chunk capacities (enforced, not in the property text); every receive delta inside its
1- or 2-octet range (property text) -/
def Twcc.withinLimits (t : Twcc) : Bool :=
  decide (t.header.count ≤ 31) && t.chunks.all TwccChunk.withinLimits && t.deltas.all RecvDelta.withinLimits

/-- the explicit size premise of the converse direction: header, fixed part, chunks and deltas, before padding, fit the
uint16 in which `Marshal` computes its buffer size (above it the buffer size wraps: panic or silent truncation) -/
def Twcc.fitsSize (t : Twcc) : Bool := decide (20 + 2 * t.chunks.length + (t.deltas.map deltaSize).sum ≤ 65532)

theorem Twcc.size_of_fits (t : Twcc) (h : Twcc.fitsSize t = true) :
    20 + 2 * t.chunks.length + (t.deltas.map deltaSize).sum ≤ t.marshalSize := by
  simp only [Twcc.fitsSize, decide_eq_true_eq] at h
  unfold Twcc.marshalSize Twcc.packetLen
  simp only [headerLength, packetChunkOffset]
  generalize (t.deltas.map deltaSize).sum = D at *
  generalize t.chunks.length = c at *
  split <;> omega

/-- **TWCC: success implies the limits** (no size premise): no delta outside its range, no over-full status vector -/
theorem twcc_enc_ok_imp_limits (t : Twcc) (b : Bytes) (e : t.enc = .ok b) : Twcc.withinLimits t = true := by
  have hd : ∀ d ∈ t.deltas, RecvDelta.withinLimits d = true := fun d hd =>
    (iff_of (RecvDelta.ok_of_limits d) (RecvDelta.err_of_limits d)).mp (twcc_limits e d hd)
  unfold Twcc.enc at e
  obtain ⟨h, hh, e⟩ := bind_eq_ok.mp e
  dsimp only at e
  split at e
  · cases e
  · split at e
    · cases e
    · obtain ⟨cs, hc, e⟩ := bind_eq_ok.mp e
      have hch : t.chunks.all TwccChunk.withinLimits = true := by
        cases hall : t.chunks.all TwccChunk.withinLimits with
        | true => rfl
        | false =>
          rw [encTwccChunks_eq, encList_err _ _ TwccChunk.ok_of_limits TwccChunk.err_of_limits _ hall] at hc
          cases hc
      simp only [Twcc.withinLimits, Bool.and_eq_true, decide_eq_true_eq]
      exact ⟨⟨header_limit hh, hch⟩, List.all_eq_true.mpr hd⟩

/-- **TWCC: within the limits and within the uint16 size, Marshal returns bytes** -/
theorem Twcc.ok_of_limits (t : Twcc) (h : Twcc.withinLimits t = true) (hs : Twcc.fitsSize t = true) : ∃ b, t.enc = .ok b := by
  have hlo := Twcc.size_of_fits t hs
  simp only [Twcc.withinLimits, Bool.and_eq_true, decide_eq_true_eq] at h
  obtain ⟨⟨hc, hch⟩, hd⟩ := h
  obtain ⟨cs, hcs⟩ := encList_ok _ _ TwccChunk.ok_of_limits t.chunks hch
  unfold Twcc.enc
  rw [Header.enc_ok _ hc, bind_ok]
  dsimp only
  rw [if_neg (by simp only [headerLength]; omega), if_neg (by simp only [headerLength]; omega),
    encTwccChunks_eq, hcs, bind_ok, if_neg (by simp only [headerLength]; omega)]
  refine bind_ok_of (fun p => p.length = t.marshalSize - 4) ?_ ?_
  · obtain ⟨p, hp, lp⟩ := copyInto_ok (be32 t.sender ++ be32 t.media ++ be16 t.baseSeq ++ be16 t.statusCount ++
      be32 (appendNBitsToUint32 (appendNBitsToUint32 0 24 t.refTime) 8 t.fbCount) ++ zeros (t.marshalSize - headerLength - 16)) 16 cs
      (by simp only [List.length_append, be32_length, be16_length, zeros_length]; omega)
    refine ⟨p, hp, ?_⟩
    rw [lp]
    simp only [List.length_append, be32_length, be16_length, zeros_length, headerLength]; omega
  · intro p1 l1
    refine bind_ok_of (fun p => p.length = t.marshalSize - 4) ?_ ?_
    · obtain ⟨p, hp, lp⟩ := writeDeltas_ok t.deltas p1 (16 + t.chunks.length * 2) hd (by omega)
      exact ⟨p, hp, by rw [lp, l1]⟩
    · intro p2 l2
      by_cases hpad : t.header.padding = true
      · rw [if_pos hpad, if_neg (by simp only [headerLength]; omega)]; exact ⟨_, rfl⟩
      · rw [if_neg hpad]; exact ⟨_, rfl⟩

/-- **TWCC: outside the limits (and within the uint16 size) Marshal returns an error, hence no bytes** -/
theorem twcc_enc_err_no_bytes (t : Twcc) (h : Twcc.withinLimits t = false) (hs : Twcc.fitsSize t = true) : t.enc = .err := by
  have hlo := Twcc.size_of_fits t hs
  unfold Twcc.enc
  by_cases hc : t.header.count ≤ 31
  · rw [Header.enc_ok _ hc, bind_ok]
    dsimp only
    rw [if_neg (by simp only [headerLength]; omega), if_neg (by simp only [headerLength]; omega), encTwccChunks_eq]
    cases hch : t.chunks.all TwccChunk.withinLimits with
    | false => rw [encList_err _ _ TwccChunk.ok_of_limits TwccChunk.err_of_limits _ hch]; rfl
    | true =>
      obtain ⟨cs, hcs⟩ := encList_ok _ _ TwccChunk.ok_of_limits t.chunks hch
      simp only [Twcc.withinLimits, hc, hch, decide_true, Bool.true_and] at h
      rw [hcs, bind_ok, if_neg (by simp only [headerLength]; omega)]
      refine bind_err_of (fun p => p.length = t.marshalSize - 4) ?_ ?_
      · obtain ⟨p, hp, lp⟩ := copyInto_ok (be32 t.sender ++ be32 t.media ++ be16 t.baseSeq ++ be16 t.statusCount ++
          be32 (appendNBitsToUint32 (appendNBitsToUint32 0 24 t.refTime) 8 t.fbCount) ++ zeros (t.marshalSize - headerLength - 16)) 16 cs
          (by simp only [List.length_append, be32_length, be16_length, zeros_length]; omega)
        refine ⟨p, hp, ?_⟩
        rw [lp]
        simp only [List.length_append, be32_length, be16_length, zeros_length, headerLength]; omega
      · intro p1 l1
        rw [writeDeltas_err t.deltas p1 (16 + t.chunks.length * 2) h (by omega)]; rfl
  · rw [header_err _ hc]; rfl

/-- **TWCC, if and only if**, under the explicit size premise -/
theorem twcc_enc_ok_iff_limits (t : Twcc) (hs : Twcc.fitsSize t = true) : (∃ b, t.enc = .ok b) ↔ Twcc.withinLimits t = true :=
  iff_of (fun h => Twcc.ok_of_limits t h hs) (fun h => twcc_enc_err_no_bytes t h hs)

/-! ## all kinds -/

/-- **the wire limits of Marshal, one decidable predicate over all packet kinds** (see the table at the top of the file) -/
def withinLimits : Packet → Bool
  | .sr v => SenderReport.withinLimits v
  | .rr v => ReceiverReport.withinLimits v
  | .sdes v => SourceDescription.withinLimits v
  | .bye v => Goodbye.withinLimits v
  | .app v => ApplicationDefined.withinLimits v
  | .nack v => TransportLayerNack.withinLimits v
  | .sli v => SliceLossIndication.withinLimits v
  | .remb v => Remb.withinLimits v
  | .ccfb v => Ccfb.withinLimits v
  | .twcc v => Twcc.withinLimits v
  | .xr v => XR.shaped v                 -- no limit; shape of the model value only
  | .rrr _ => true
  | .pli _ => true
  | .fir _ => true
  | .raw _ => true

theorem enc_sr (v : SenderReport) : (Packet.sr v).enc = v.enc := by simp only [Packet.enc, Packet.encP]; cases v.enc <;> rfl
theorem enc_rr (v : ReceiverReport) : (Packet.rr v).enc = v.enc := by simp only [Packet.enc, Packet.encP]; cases v.enc <;> rfl
theorem enc_sdes (v : SourceDescription) : (Packet.sdes v).enc = v.enc := by simp only [Packet.enc, Packet.encP]; cases v.enc <;> rfl
theorem enc_bye (v : Goodbye) : (Packet.bye v).enc = v.enc := by simp only [Packet.enc, Packet.encP]; cases v.enc <;> rfl
theorem enc_app (v : ApplicationDefined) : (Packet.app v).enc = v.enc := by simp only [Packet.enc, Packet.encP]; cases v.enc <;> rfl
theorem enc_nack (v : TransportLayerNack) : (Packet.nack v).enc = v.enc := by simp only [Packet.enc, Packet.encP]; cases v.enc <;> rfl
theorem enc_rrr (v : RapidResync) : (Packet.rrr v).enc = v.enc := by simp only [Packet.enc, Packet.encP]; cases v.enc <;> rfl
theorem enc_twcc (v : Twcc) : (Packet.twcc v).enc = v.enc := by simp only [Packet.enc, Packet.encP]; cases v.enc <;> rfl
theorem enc_ccfb (v : Ccfb) : (Packet.ccfb v).enc = v.enc := by simp only [Packet.enc, Packet.encP]; cases v.enc <;> rfl
theorem enc_pli (v : PictureLossIndication) : (Packet.pli v).enc = v.enc := by simp only [Packet.enc, Packet.encP]; cases v.enc <;> rfl
theorem enc_sli (v : SliceLossIndication) : (Packet.sli v).enc = v.enc := by simp only [Packet.enc, Packet.encP]; cases v.enc <;> rfl
theorem enc_remb (v : Remb) : (Packet.remb v).enc = v.enc := by simp only [Packet.enc, Packet.encP]; cases v.enc <;> rfl
theorem enc_fir (v : FullIntraRequest) : (Packet.fir v).enc = v.enc := by simp only [Packet.enc, Packet.encP]; cases v.enc <;> rfl
theorem enc_raw (b : Bytes) : (Packet.raw b).enc = .ok b := rfl
/-- for XR the packet-level Marshal returns the bytes of `ExtendedReport.Marshal` (the model also returns the updated value) -/
theorem enc_xr (v : XR) : (Packet.xr v).enc = (v.enc >>= fun x => pure x.1) := by
  simp only [Packet.enc, Packet.encP]; cases v.enc <;> rfl

theorem xr_ok_of_shaped (v : XR) (h : XR.shaped v = true) : ∃ b, (Packet.xr v).enc = .ok b := by
  obtain ⟨x, hx⟩ := XR.ok_of_shaped v h
  exact ⟨x.1, by rw [enc_xr, hx]; rfl⟩

/-- an ill-shaped XR model value (no Go value has this form) makes the model panic -/
theorem xr_panic_of_unshaped (v : XR) (h : XR.shaped v = false) : (Packet.xr v).enc = .panic := by
  rw [enc_xr, XR.panic_of_unshaped v h]; rfl

/-- **XR has no wire limit**: `ExtendedReport.Marshal` never returns an error in the model, whatever the field values -/
theorem xr_enc_ne_err (v : XR) : (Packet.xr v).enc ≠ .err := by
  cases h : XR.shaped v with
  | true => obtain ⟨b, hb⟩ := xr_ok_of_shaped v h; rw [hb]; exact fun e => by cases e
  | false => rw [xr_panic_of_unshaped v h]; exact fun e => by cases e

/-- **C08 in one statement**: for every packet kind except TWCC, Marshal returns bytes if and only if the value is within
the wire limits. In particular values exactly at a limit are accepted and values one above are not (examples below). -/
theorem enc_ok_iff_limits (p : Packet) (hk : ¬ p.isTwcc) : (∃ b, p.enc = .ok b) ↔ withinLimits p = true := by
  cases p with
  | sr v => rw [enc_sr]; exact iff_of (SenderReport.ok_of_limits v) (SenderReport.err_of_limits v)
  | rr v => rw [enc_rr]; exact iff_of (ReceiverReport.ok_of_limits v) (ReceiverReport.err_of_limits v)
  | sdes v => rw [enc_sdes]; exact iff_of (SourceDescription.ok_of_limits v) (SourceDescription.err_of_limits v)
  | bye v => rw [enc_bye]; exact iff_of (Goodbye.ok_of_limits v) (Goodbye.err_of_limits v)
  | app v => rw [enc_app]; exact iff_of (ApplicationDefined.ok_of_limits v) (ApplicationDefined.err_of_limits v)
  | nack v => rw [enc_nack]; exact iff_of (TransportLayerNack.ok_of_limits v) (TransportLayerNack.err_of_limits v)
  | rrr v => rw [enc_rrr]; exact ⟨fun _ => rfl, fun _ => RapidResync.enc_always_ok v⟩
  | twcc v => exact absurd trivial hk
  | ccfb v => rw [enc_ccfb]; exact iff_of (Ccfb.ok_of_limits v) (Ccfb.err_of_limits v)
  | pli v => rw [enc_pli]; exact ⟨fun _ => rfl, fun _ => PictureLossIndication.enc_always_ok v⟩
  | sli v => rw [enc_sli]; exact iff_of (SliceLossIndication.ok_of_limits v) (SliceLossIndication.err_of_limits v)
  | remb v => rw [enc_remb]; exact iff_of (Remb.ok_of_limits v) (Remb.err_of_limits v)
  | fir v => rw [enc_fir]; exact ⟨fun _ => rfl, fun _ => FullIntraRequest.enc_always_ok v⟩
  | xr v =>
    constructor
    · intro ⟨b, hb⟩
      cases h : XR.shaped v with
      | true => exact h
      | false => rw [xr_panic_of_unshaped v h] at hb; cases hb
    · exact xr_ok_of_shaped v
  | raw b => exact ⟨fun _ => rfl, fun _ => ⟨b, rfl⟩⟩

/-- **outside the limits: an error, and no bytes** (the model's `Out.err` carries no bytes), for every kind except TWCC
(see `twcc_enc_err_no_bytes`) and XR (which has no limits: `xr_enc_ne_err`; its `withinLimits` is the shape condition of
the model value, whose failure is a model `panic`: `xr_panic_of_unshaped`).
Requested form without `hx`: FALSE for ill-shaped XR model values (`exXR_unshaped_not_err` below); `enc_no_bytes` is the
version that holds with `hk` alone. -/
theorem enc_err_no_bytes (p : Packet) (h : withinLimits p = false) (hk : ¬ p.isTwcc) (hx : ¬ p.isXR) : p.enc = .err := by
  cases p with
  | sr v => rw [enc_sr]; exact SenderReport.err_of_limits v h
  | rr v => rw [enc_rr]; exact ReceiverReport.err_of_limits v h
  | sdes v => rw [enc_sdes]; exact SourceDescription.err_of_limits v h
  | bye v => rw [enc_bye]; exact Goodbye.err_of_limits v h
  | app v => rw [enc_app]; exact ApplicationDefined.err_of_limits v h
  | nack v => rw [enc_nack]; exact TransportLayerNack.err_of_limits v h
  | rrr v => cases h
  | twcc v => exact absurd trivial hk
  | ccfb v => rw [enc_ccfb]; exact Ccfb.err_of_limits v h
  | pli v => cases h
  | sli v => rw [enc_sli]; exact SliceLossIndication.err_of_limits v h
  | remb v => rw [enc_remb]; exact Remb.err_of_limits v h
  | fir v => cases h
  | xr v => exact absurd trivial hx
  | raw b => cases h

/-- outside the limits Marshal returns no bytes — every kind except TWCC, XR included -/
theorem enc_no_bytes (p : Packet) (h : withinLimits p = false) (hk : ¬ p.isTwcc) : ∀ b, p.enc ≠ .ok b := by
  intro b hb
  have := (enc_ok_iff_limits p hk).mp ⟨b, hb⟩
  rw [h] at this; cases this

/-- success implies the limits — every kind, TWCC included, no premise -/
theorem enc_ok_imp_limits (p : Packet) (b : Bytes) (h : p.enc = .ok b) : withinLimits p = true := by
  by_cases hk : p.isTwcc
  · cases p with
    | twcc v => rw [enc_twcc] at h; exact twcc_enc_ok_imp_limits v b h
    | _ => exact absurd hk (fun h => h)
  · exact (enc_ok_iff_limits p hk).mp ⟨b, h⟩

/-- TWCC member of the sum type, if and only if, under the size premise -/
theorem enc_ok_iff_limits_twcc (v : Twcc) (hs : Twcc.fitsSize v = true) :
    (∃ b, (Packet.twcc v).enc = .ok b) ↔ withinLimits (.twcc v) = true := by
  rw [enc_twcc]; exact twcc_enc_ok_iff_limits v hs

/-! ## rtcp.Marshal([]Packet) and CompoundPacket.Marshal -/

/-- if `rtcp.Marshal` returns bytes, every member — TWCC included — is within its wire limits -/
theorem limits_list_all (ps : List Packet) (b : Bytes) (h : uenc ps = .ok b) : ∀ p ∈ ps, withinLimits p = true := by
  intro p hp
  obtain ⟨bp, hbp⟩ := C03.list_all_or_nothing ps b h p hp
  exact enc_ok_imp_limits p bp hbp

theorem limits_list (ps : List Packet) (b : Bytes) (h : uenc ps = .ok b) : ∀ p ∈ ps, ¬ p.isTwcc → withinLimits p = true :=
  fun p hp _ => limits_list_all ps b h p hp

theorem limits_compound (ps : List Packet) (b : Bytes) (h : cenc ps = .ok b) : ∀ p ∈ ps, withinLimits p = true :=
  limits_list_all ps b (C03.compound_ok_valid ps b h).2

/-- one member outside its limits (not TWCC): the whole datagram is refused — no bytes at all -/
theorem list_no_bytes (ps : List Packet) (p : Packet) (hp : p ∈ ps) (h : withinLimits p = false) : ∀ b, uenc ps ≠ .ok b := by
  intro b hb
  have := limits_list_all ps b hb p hp
  rw [h] at this; cases this

/-! ## values exactly at the limits are accepted, one step above they are refused

Each at-limit value satisfies `withinLimits` (evaluated by `decide +kernel`: kernel reduction, no extra axiom; the
ones of size 16384 and 65523 by `List.length_replicate`) and hence — by `enc_ok_iff_limits`, not by running the encoder —
Marshal returns bytes; each value one step above fails `withinLimits` and hence Marshal returns `err`. -/

theorem notTwcc_of {p : Packet} (h : p.isTwcc = False) : ¬ p.isTwcc := by rw [h]; exact fun h => h
theorem notXR_of {p : Packet} (h : p.isXR = False) : ¬ p.isXR := by rw [h]; exact fun h => h

/-- at the limits ⇒ encodes -/
theorem accepted (p : Packet) (hk : p.isTwcc = False) (h : withinLimits p = true) : ∃ b, p.enc = .ok b :=
  (enc_ok_iff_limits p (notTwcc_of hk)).mpr h

/-- above a limit ⇒ `err` -/
theorem refused (p : Packet) (hk : p.isTwcc = False) (hx : p.isXR = False) (h : withinLimits p = false) : p.enc = .err :=
  enc_err_no_bytes p h (notTwcc_of hk) (notXR_of hx)

/-! ### BYE: exactly 31 sources and a 255-octet reason -/
def exBye : Goodbye := { sources := List.replicate 31 7, reason := List.replicate 255 65 }
def exBye32 : Goodbye := { sources := List.replicate 32 7, reason := List.replicate 255 65 }
def exBye256 : Goodbye := { sources := List.replicate 31 7, reason := List.replicate 256 65 }
theorem exBye_within : withinLimits (.bye exBye) = true := by decide +kernel
theorem exBye_accepted : ∃ b, (Packet.bye exBye).enc = .ok b := accepted _ rfl exBye_within
theorem exBye32_refused : (Packet.bye exBye32).enc = .err := refused _ rfl rfl (by decide +kernel)
theorem exBye256_refused : (Packet.bye exBye256).enc = .err := refused _ rfl rfl (by decide +kernel)

/-! ### SR / RR: 31 reports, each with cumulative-lost 2^24 − 1 -/
def exSR31 : SenderReport := { ssrc := 1, reports := List.replicate 31 { ssrc := 2, totalLost := 16777215 } }
def exSR32 : SenderReport := { ssrc := 1, reports := List.replicate 32 { ssrc := 2, totalLost := 16777215 } }
def exSRlost : SenderReport := { ssrc := 1, reports := List.replicate 30 { ssrc := 2, totalLost := 16777215 } ++ [{ ssrc := 3, totalLost := 16777216 }] }
theorem exSR31_within : withinLimits (.sr exSR31) = true := by decide +kernel
theorem exSR31_accepted : ∃ b, (Packet.sr exSR31).enc = .ok b := accepted _ rfl exSR31_within
theorem exSR32_refused : (Packet.sr exSR32).enc = .err := refused _ rfl rfl (by decide +kernel)
theorem exSRlost_refused : (Packet.sr exSRlost).enc = .err := refused _ rfl rfl (by decide +kernel)
def exRR31 : ReceiverReport := { ssrc := 1, reports := List.replicate 31 { ssrc := 2, totalLost := 16777215 } }
def exRR32 : ReceiverReport := { ssrc := 1, reports := List.replicate 32 { ssrc := 2, totalLost := 16777215 } }
theorem exRR31_accepted : ∃ b, (Packet.rr exRR31).enc = .ok b := accepted _ rfl (by decide +kernel)
theorem exRR32_refused : (Packet.rr exRR32).enc = .err := refused _ rfl rfl (by decide +kernel)

/-! ### SDES: 31 chunks, an item of 255 octets; type 0 is refused -/
def exSdes : SourceDescription := { chunks := List.replicate 31 { source := 1, items := [{ type := 1, text := List.replicate 255 97 }] } }
def exSdes32 : SourceDescription := { chunks := List.replicate 32 { source := 1, items := [{ type := 1, text := [97] }] } }
def exSdes256 : SourceDescription := { chunks := [{ source := 1, items := [{ type := 1, text := List.replicate 256 97 }] }] }
def exSdesEnd : SourceDescription := { chunks := [{ source := 1, items := [{ type := 1, text := [97] }, { type := 0, text := [] }] }] }
theorem exSdes_within : withinLimits (.sdes exSdes) = true := by decide +kernel
theorem exSdes_accepted : ∃ b, (Packet.sdes exSdes).enc = .ok b := accepted _ rfl exSdes_within
theorem exSdes32_refused : (Packet.sdes exSdes32).enc = .err := refused _ rfl rfl (by decide +kernel)
theorem exSdes256_refused : (Packet.sdes exSdes256).enc = .err := refused _ rfl rfl (by decide +kernel)
theorem exSdesEnd_refused : (Packet.sdes exSdesEnd).enc = .err := refused _ rfl rfl (by decide +kernel)

/-! ### REMB: 255 SSRCs; bitrate +0, −0 and +Inf accepted, −1.0 refused -/
def exRemb : Remb := { sender := 1, bitrate := 1259902592, ssrcs := List.replicate 255 9 }     -- 0x4B189680 = 1e7
def exRemb256 : Remb := { sender := 1, bitrate := 1259902592, ssrcs := List.replicate 256 9 }
def exRembNeg : Remb := { sender := 1, bitrate := 3212836864, ssrcs := [9] }                    -- 0xBF800000 = −1.0
def exRembNegZero : Remb := { sender := 1, bitrate := 2147483648, ssrcs := [9] }                -- 0x80000000 = −0
def exRembInf : Remb := { sender := 1, bitrate := 2139095040, ssrcs := [9] }                    -- 0x7F800000 = +Inf
theorem exRemb_within : withinLimits (.remb exRemb) = true := by decide +kernel
theorem exRemb_accepted : ∃ b, (Packet.remb exRemb).enc = .ok b := accepted _ rfl exRemb_within
theorem exRemb256_refused : (Packet.remb exRemb256).enc = .err := refused _ rfl rfl (by decide +kernel)
theorem exRembNeg_refused : (Packet.remb exRembNeg).enc = .err := refused _ rfl rfl (by decide +kernel)
theorem exRembNegZero_accepted : ∃ b, (Packet.remb exRembNegZero).enc = .ok b := accepted _ rfl (by decide +kernel)
theorem exRembInf_accepted : ∃ b, (Packet.remb exRembInf).enc = .ok b := accepted _ rfl (by decide +kernel)

/-! ### CCFB: a report block with 16384 metric blocks (proved through the iff: nothing of that size is evaluated) -/
def exCcfb : Ccfb := { sender := 1, blocks := [{ media := 2, beginSeq := 0, metrics := List.replicate 16384 { received := true, ecn := 1, ato := 5 } }] }
def exCcfb16385 : Ccfb := { sender := 1, blocks := [{ media := 2, beginSeq := 0, metrics := List.replicate 16385 { received := true, ecn := 1, ato := 5 } }] }
theorem exCcfb_within : withinLimits (.ccfb exCcfb) = true := by
  simp only [withinLimits, Ccfb.withinLimits, CcfbBlock.withinLimits, exCcfb, List.all_cons, List.all_nil, List.length_replicate]
  decide
theorem exCcfb_accepted : ∃ b, (Packet.ccfb exCcfb).enc = .ok b := accepted _ rfl exCcfb_within
theorem exCcfb16385_refused : (Packet.ccfb exCcfb16385).enc = .err :=
  refused _ rfl rfl (by
    simp only [withinLimits, Ccfb.withinLimits, CcfbBlock.withinLimits, exCcfb16385, List.all_cons, List.all_nil, List.length_replicate]
    decide)

/-! ### APP: subtype 31, 4-octet name, 65523 octets of data -/
def exApp31 : ApplicationDefined := { subType := 31, ssrc := 1, name := [65, 66, 67, 68], data := [1, 2, 3] }
def exApp32 : ApplicationDefined := { subType := 32, ssrc := 1, name := [65, 66, 67, 68], data := [1, 2, 3] }
def exAppName3 : ApplicationDefined := { subType := 31, ssrc := 1, name := [65, 66, 67], data := [1, 2, 3] }
def exAppName5 : ApplicationDefined := { subType := 31, ssrc := 1, name := [65, 66, 67, 68, 69], data := [1, 2, 3] }
def exAppBig : ApplicationDefined := { subType := 31, ssrc := 1, name := [65, 66, 67, 68], data := List.replicate 65523 0 }
def exAppTooBig : ApplicationDefined := { subType := 31, ssrc := 1, name := [65, 66, 67, 68], data := List.replicate 65524 0 }
theorem exApp31_within : withinLimits (.app exApp31) = true := by decide +kernel
theorem exApp31_accepted : ∃ b, (Packet.app exApp31).enc = .ok b := accepted _ rfl exApp31_within
theorem exApp32_refused : (Packet.app exApp32).enc = .err := refused _ rfl rfl (by decide +kernel)
theorem exAppName3_refused : (Packet.app exAppName3).enc = .err := refused _ rfl rfl (by decide +kernel)
theorem exAppName5_refused : (Packet.app exAppName5).enc = .err := refused _ rfl rfl (by decide +kernel)
theorem exAppBig_accepted : ∃ b, (Packet.app exAppBig).enc = .ok b :=
  accepted _ rfl (by
    simp only [withinLimits, ApplicationDefined.withinLimits, exAppBig, List.length_replicate]
    decide)
theorem exAppTooBig_refused : (Packet.app exAppTooBig).enc = .err :=
  refused _ rfl rfl (by
    simp only [withinLimits, ApplicationDefined.withinLimits, exAppTooBig, List.length_replicate]
    decide)

/-! ### NACK / SLI: 253 entries (limits the property text does not name) -/
def exNack253 : TransportLayerNack := { sender := 1, media := 2, nacks := List.replicate 253 { packetID := 1, lost := 0 } }
def exNack254 : TransportLayerNack := { sender := 1, media := 2, nacks := List.replicate 254 { packetID := 1, lost := 0 } }
theorem exNack253_accepted : ∃ b, (Packet.nack exNack253).enc = .ok b := accepted _ rfl (by decide +kernel)
theorem exNack254_refused : (Packet.nack exNack254).enc = .err := refused _ rfl rfl (by decide +kernel)
def exSli253 : SliceLossIndication := { sender := 1, media := 2, sli := List.replicate 253 { first := 1, number := 1, picture := 1 } }
def exSli254 : SliceLossIndication := { sender := 1, media := 2, sli := List.replicate 254 { first := 1, number := 1, picture := 1 } }
theorem exSli253_accepted : ∃ b, (Packet.sli exSli253).enc = .ok b := accepted _ rfl (by decide +kernel)
theorem exSli254_refused : (Packet.sli exSli254).enc = .err := refused _ rfl rfl (by decide +kernel)

/-! ### TWCC: a full one-bit status vector, deltas at both ends of both ranges -/
def exTwcc : Twcc :=
  { header := { padding := true, count := 15, type := 205, length := 7 }, sender := 1, media := 2, baseSeq := 3, statusCount := 14,
    chunks := [.sv 1 0 [1, 1, 1, 1, 0, 0, 0, 0, 0, 0, 0, 0, 0, 0], .sv 1 1 [2, 2, 1, 0, 0, 0, 0]],
    deltas := [⟨1, 0⟩, ⟨1, 255 * 250 + 249⟩, ⟨2, -32768 * 250 - 249⟩, ⟨2, 32767 * 250 + 249⟩] }
def exTwccDelta : Twcc := { exTwcc with deltas := [⟨1, 256 * 250⟩] }
def exTwccSyms : Twcc := { exTwcc with chunks := [.sv 1 0 [1, 1, 1, 1, 0, 0, 0, 0, 0, 0, 0, 0, 0, 0, 0]] }
def exTwccSyms2 : Twcc := { exTwcc with chunks := [.sv 1 1 [2, 2, 1, 0, 0, 0, 0, 0]] }
def exTwccCount : Twcc := { exTwcc with header := { count := 32, type := 205 } }
theorem exTwcc_within : withinLimits (.twcc exTwcc) = true := by decide +kernel
theorem exTwcc_fits : Twcc.fitsSize exTwcc = true := by decide +kernel
theorem exTwcc_accepted : ∃ b, (Packet.twcc exTwcc).enc = .ok b := (enc_ok_iff_limits_twcc exTwcc exTwcc_fits).mpr exTwcc_within
theorem exTwccDelta_refused : exTwccDelta.enc = .err := twcc_enc_err_no_bytes _ (by decide +kernel) (by decide +kernel)
theorem exTwccSyms_refused : exTwccSyms.enc = .err := twcc_enc_err_no_bytes _ (by decide +kernel) (by decide +kernel)
theorem exTwccSyms2_refused : exTwccSyms2.enc = .err := twcc_enc_err_no_bytes _ (by decide +kernel) (by decide +kernel)
theorem exTwccCount_refused : exTwccCount.enc = .err := twcc_enc_err_no_bytes _ (by decide +kernel) (by decide +kernel)

/-! ### XR: no limit — every field at its maximum is accepted; an ill-shaped model value is a panic, not an error -/
def exXRmax : XR :=
  { sender := 4294967295, blocks := [{ kind := 1, omits := [15], vals := [4294967295, 65535, 65535], elems := List.replicate 300 [65535] },
                                     { kind := 4, vals := [18446744073709551615] }, { kind := 0, bt := 255, ts := 255, elems := [[255], [255], [255]] }] }
def exXRunshaped : XR := { sender := 1, blocks := [{ kind := 4, vals := [] }] }                 -- an RRT block without its timestamp
theorem exXRmax_accepted : ∃ b, (Packet.xr exXRmax).enc = .ok b := accepted _ rfl (by decide +kernel)
theorem exXRunshaped_outside : withinLimits (.xr exXRunshaped) = false := by decide +kernel
/-- why `enc_err_no_bytes` excludes XR: outside `withinLimits`, not TWCC, and yet not `err` -/
theorem exXR_unshaped_not_err : withinLimits (.xr exXRunshaped) = false ∧ ¬ (Packet.xr exXRunshaped).isTwcc ∧
    (Packet.xr exXRunshaped).enc = .panic ∧ (Packet.xr exXRunshaped).enc ≠ .err :=
  ⟨exXRunshaped_outside, fun h => h, xr_panic_of_unshaped _ exXRunshaped_outside, xr_enc_ne_err _⟩

/-! ### a datagram: one member above a limit and nothing is emitted -/
theorem exList_accepted : ∀ p ∈ [Packet.sr exSR31, .bye exBye, .remb exRemb], withinLimits p = true := by decide +kernel
theorem exList_refused : ∀ b, uenc [Packet.sr exSR31, .bye exBye32, .remb exRemb] ≠ .ok b :=
  list_no_bytes _ (.bye exBye32) (by simp) (by decide +kernel)

end Rtcp.C08
