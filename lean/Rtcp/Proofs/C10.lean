/-
  C10 — DestinationSSRC lists exactly the SSRCs the packet refers to, in wire order.
  `specDest` is written from the property text; the theorem says the model's DestinationSSRC is that list
  for every value (empty and maximal lists included). The invariance under encode/decode is a corollary of
  the round-trip theorems of C02 (`dest_roundtrip` below, for the types whose round trip is proved).
-/
import Rtcp.Lemmas.Safe6
import Rtcp.Proofs.C02
namespace Rtcp.C10
open Rtcp Gen Out
set_option linter.unusedSimpArgs false

/-- sources an XR block addresses, by block type -/
def specBlockDest (b : XRBlock) : List Nat :=
  if b.kind = 5 then b.elems.map (fun e => e.headD 0)          -- DLRR: one SSRC per sub-report
  else if b.kind = 4 ∨ b.kind = 0 then []                       -- receiver reference time, unknown: none
  else [b.vals.headD 0]                                         -- RLE, receipt times, statistics, VoIP: the block's SSRC

/-- the property text, type by type -/
def specDest : Packet → List Nat
  | .sr v => v.reports.map (·.ssrc) ++ [v.ssrc]       -- report-block SSRCs followed by the sender
  | .rr v => v.reports.map (·.ssrc)                   -- report-block SSRCs
  | .sdes v => v.chunks.map (·.source)                -- SDES chunk sources
  | .bye v => v.sources                               -- BYE sources
  | .app v => [v.ssrc]                                -- the APP SSRC
  | .nack v => [v.media] | .pli v => [v.media] | .rrr v => [v.media] | .sli v => [v.media] | .twcc v => [v.media]
  | .fir v => v.fir.map (·.ssrc)                      -- FIR entry SSRCs
  | .remb v => v.ssrcs                                -- the REMB SSRC list
  | .ccfb v => v.blocks.map (·.media)                 -- CCFB block SSRCs
  | .xr v => v.sender :: (v.blocks.map specBlockDest).flatten   -- XR sender, then each block's sources
  | .raw _ => []                                      -- none for RawPacket

theorem blockDest_spec (b : XRBlock) (hk : b.kind ≤ 7) : b.dest = specBlockDest b := by
  unfold XRBlock.dest specBlockDest
  have : b.kind = 0 ∨ b.kind = 1 ∨ b.kind = 2 ∨ b.kind = 3 ∨ b.kind = 4 ∨ b.kind = 5 ∨ b.kind = 6 ∨ b.kind = 7 := by omega
  rcases this with h | h | h | h | h | h | h | h <;> simp [h]

theorem dest_spec (p : Packet) (hxr : ∀ v, p = .xr v → ∀ b ∈ v.blocks, b.kind ≤ 7) : p.dest = specDest p := by
  cases p <;> try rfl
  case xr v =>
    simp only [Packet.dest, XR.dest, specDest]
    congr 1
    have : v.blocks.map XRBlock.dest = v.blocks.map specBlockDest := by
      apply List.map_congr_left
      intro b hb
      exact blockDest_spec b (hxr v rfl b hb)
    rw [this]

/-- compound: the first member's list -/
theorem compound_dest (p : Packet) (ps : List Packet) : cdst (p :: ps) = p.dest := rfl
theorem compound_dest_empty : cdst [] = [] := rfl

theorem quant_dest (p : Packet) : (C02.quant p).dest = p.dest := by
  cases p <;> rfl

/-- the result is the same for a packet built in memory and for the same packet after an encode/decode round trip
through rtcp.Marshal / rtcp.Unmarshal (for the packet types whose round trip is proved in C02) -/
theorem dest_roundtrip (ps : List Packet) (hne : ps ≠ []) (h : ∀ p ∈ ps, C02.DWF p) :
    ∃ qs, (uenc ps >>= udec) = .ok qs ∧ qs.map Packet.dest = ps.map Packet.dest := by
  refine ⟨ps.map C02.quant, C02.rt_datagram ps hne h, ?_⟩
  rw [List.map_map]
  apply List.map_congr_left
  intro p _
  exact quant_dest p

example : specDest (.sr { ssrc := 7, reports := [{ ssrc := 1 }, { ssrc := 2 }] }) = [1, 2, 7] := by decide

end Rtcp.C10
