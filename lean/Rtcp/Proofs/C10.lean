import Rtcp.Lemmas.Safe6
namespace Rtcp.C10
end Rtcp.C10
