/-
  C09 (third part) — decode ∘ encode ∘ decode is idempotent on EVERY datagram `rtcp.Unmarshal` accepts, for ALL packet
  kinds: the ten kinds of Proofs/C09b.lean plus REMB, CCFB, XR and TWCC. Helper lemmas (decoder images): Lemmas/Image2.lean.

  HEADLINE `idem_accepted_all`: if `udec b = ok ps`, every packet meets its side condition `coveredAll`, and
  `uenc ps = ok b2`, then `udec b2 = ok (ps.map post)`, `uenc (ps.map post) = ok b2`, where `post` is the state Marshal
  leaves a packet in: the identity except on ExtendedReport, whose block headers Marshal fills in (`XR.marshalled`).
  (In Go, Marshal mutates the report blocks through their pointers, so the list the caller holds after Marshal IS
  `ps.map post`; `idem_accepted_all_eq` gives plain equality when no XR block header changes.)

  SIDE CONDITIONS (`coveredAll`, decidable, per kind) — and what is true outside them:
    SR RR SDES BYE APP NACK RRR PLI FIR RAW   none (C09b)
    SLI    none: `rtcp.Unmarshal` never returns one (`C09.sli_never_returned`, KF-SLI-PT)
    XR     none. Every block decoded from a frame of an accepted datagram is `C15.BlockWF`, in particular 32-bit aligned
           (the block is cut at `min (4·(BL+1)) (what is left)` of an aligned frame), so the unaligned blocks of KF-XR-ALIGN
           never come out of the decoder. Marshal normalises reserved bits of the type-specific octet and recomputes
           the block length (a block length running past the packet, trailing octets of a fixed-size block): `post`.
    REMB   `Remb.Unsaturated`: ⌊bitrate⌋ ≤ 0x3FFFF·2^63. FINDING (new facet of KF-REMB-MANT0): the wire pairs with
           mantissa 0 and exponent ≥ 58 decode to 2^(e+23) > 0x3FFFF·2^63; Marshal saturates that to (0x3FFFF, 63), which
           decodes to a DIFFERENT value: decode-encode-decode is not idempotent there (`KF_remb_mant0_not_idempotent`,
           confirmed against the Go library); only the second decoding is a fixed point. Every other decoded REMB —
           non-zero mantissa normalised or not, and mantissa 0 with exponent ≤ 57 — is covered.
    CCFB   `marshalSize ≤ 262144`: the re-encoding fits the 16-bit length field. It can only fail for a frame of exactly
           262144 octets whose last report block overlaps the report timestamp (`ccfb_covered_of_frame`: frames of at
           most 262140 octets always meet it); Marshal then emits 262148 octets with a wrapped length field.
           A decoded block never has exactly one metric block, so KF-CCFB-ONE-METRIC does not bite.
    TWCC   `Twcc.Consistent` (Spec/Twcc.lean): the header is carried verbatim, so it must be the header the decoded
           content calls for (PT 205 / FMT 15, length = words − 1, P set exactly when padding octets exist, size ≤ 65532).
           No further condition: clipped final run lengths and non-zero unused status symbols are covered (`Twcc.DecodedOK`).
-/
import Rtcp.Lemmas.Image2
import Rtcp.Proofs.C09b
namespace Rtcp.C09
open Rtcp Gen Out
set_option linter.unusedSimpArgs false
set_option linter.unusedVariables false

/-- the packet as `Marshal` leaves it: ExtendedReport gets its block headers filled in, everything else is untouched -/
def post : Packet → Packet
  | .xr v => .xr v.marshalled
  | p => p

theorem post_post (p : Packet) : post (post p) = post p := by
  cases p <;> simp [post, XR.marshalled_marshalled]

/-- side condition of the headline theorem, per kind (see the file header) -/
def coveredAll : Packet → Prop
  | .remb v => v.Unsaturated
  | .ccfb v => v.marshalSize ≤ 262144
  | .twcc v => v.Consistent
  | _ => True

instance (p : Packet) : Decidable (coveredAll p) := by
  cases p <;> (unfold coveredAll; infer_instance)

/-- re-encoding `p` is stable: Marshal gives one frame and leaves the packet as `post p`; the frame is cut and
dispatched back to the same Go type and decodes to `post p`, which marshals to the same octets and stays as it is -/
def Stable2 (p : Packet) : Prop :=
  ∃ f hd, p.encP = .ok (f, post p) ∧ Framed2 f hd ∧ decKind (dispatch hd.type hd.count) f = .ok (post p) ∧
    (post p).encP = .ok (f, post p)

theorem post_of_covered {p : Packet} (h : p.kind ∈ covered) : post p = p := by
  cases p <;> first | rfl | simp [covered, Packet.kind] at h

theorem stable2_of_stable {p : Packet} (hk : p.kind ∈ covered) (hs : Stable p) (hq : C02.quant p = p) : Stable2 p := by
  obtain ⟨f, hd, h1, h2, h3, h4⟩ := hs
  rw [hq] at h3 h4
  exact ⟨f, hd, by rw [post_of_covered hk]; exact h1, h2, by rw [post_of_covered hk]; exact h3,
    by rw [post_of_covered hk]; exact h4⟩

/-! ### per kind -/

theorem stable2_remb {f : Bytes} {v : Remb} (h : Remb.dec f = .ok v) (hu : v.Unsaturated) : Stable2 (.remb v) := by
  obtain ⟨f2, he, hf2, hd2⟩ := Remb.reenc h hu
  refine ⟨f2, v.hdr, by simp [Packet.encP, he, post], hf2, ?_, by simp [Packet.encP, he, post]⟩
  show decKind (dispatch 206 15) f2 = _
  rw [dispatch_remb]
  simp [decKind, hd2, post]

theorem stable2_ccfb {f : Bytes} {v : Ccfb} (h : Ccfb.dec f = .ok v) (hfit : v.marshalSize ≤ 262144)
    (he : ∃ b, v.enc = .ok b) : Stable2 (.ccfb v) := by
  obtain ⟨f2, he2, hf2, hd2⟩ := Ccfb.reenc h hfit he
  refine ⟨f2, v.header, by simp [Packet.encP, he2, post], hf2, ?_, by simp [Packet.encP, he2, post]⟩
  show decKind (dispatch TypeTransportSpecificFeedback FormatCCFB) f2 = _
  simp [dispatch, decKind, hd2, post]

theorem stable2_twcc {f : Bytes} {v : Twcc} (h : Twcc.dec f = .ok v) (hc : v.Consistent) : Stable2 (.twcc v) := by
  obtain ⟨f2, he2, hf2, hd2⟩ := Twcc.reenc h hc
  refine ⟨f2, v.header, by simp [Packet.encP, he2, post], hf2, ?_, by simp [Packet.encP, he2, post]⟩
  rw [hc.1, hc.2.1]
  show decKind (dispatch 205 15) f2 = _
  have : dispatch 205 15 = .twcc := by decide
  rw [this]
  simp [decKind, hd2, post]

theorem stable2_xr {f : Bytes} {hd : Header} {v : XR} (hf : Framed2 f hd) (h : XR.dec f = .ok v) : Stable2 (.xr v) := by
  obtain ⟨_, h4, hmax⟩ := hf.facts
  obtain ⟨f2, he, hf2, hd2, hre⟩ := XR.reenc h h4 hmax
  refine ⟨f2, v.header, by simp [Packet.encP, he, post], hf2, ?_, ?_⟩
  · show decKind (dispatch TypeExtendedReport 0) f2 = _
    simp [dispatch, decKind, hd2, post]
  · simp [post, Packet.encP, hre]

theorem enc_of_encP_ccfb {v : Ccfb} (h : ∃ f p', (Packet.ccfb v).encP = .ok (f, p')) : ∃ b, v.enc = .ok b := by
  obtain ⟨f, p', h⟩ := h; simp only [Packet.encP] at h; obtain ⟨b, hb, _⟩ := bind_eq_ok.mp h; exact ⟨b, hb⟩

/-- a frame dispatched by its header never reaches a successful SLI decoding (KF-SLI-PT) -/
theorem no_sli {f : Bytes} {hd : Header} {v : SliceLossIndication} (hf : Framed2 f hd)
    (hdec : decKind (dispatch hd.type hd.count) f = .ok (.sli v)) : False := by
  have hk := decKind_kind hdec
  simp only [Packet.kind] at hk
  have ht := dispatch_sli hk.symm
  rw [← hk] at hdec
  simp only [decKind] at hdec
  obtain ⟨v', hv, _⟩ := map_eq_ok.mp hdec
  unfold SliceLossIndication.dec at hv
  split at hv
  · cases hv
  · rw [hf.1, bind_ok] at hv
    dsimp only at hv
    split at hv
    · cases hv
    · rw [if_pos (Or.inl (by rw [ht]; decide))] at hv
      cases hv

/-- **image theorem at packet level, all kinds**: a packet that the datagram decoder returned from a frame, that meets
its side condition and that Marshal accepts, is stable -/
theorem stable2_of_decoded {f : Bytes} {hd : Header} {p : Packet} (hf : Framed2 f hd)
    (hdec : decKind (dispatch hd.type hd.count) f = .ok p) (hcov : coveredAll p)
    (henc : ∃ f' p', p.encP = .ok (f', p')) : Stable2 p := by
  by_cases hk : p.kind ∈ covered
  · obtain ⟨h1, h2⟩ := stable_of_decoded hf hdec hk henc
    exact stable2_of_stable hk h1 h2
  · have hkk := decKind_kind hdec
    have hdec' := hdec
    rw [← hkk] at hdec
    cases p with
    | remb v =>
      simp only [Packet.kind, decKind] at hdec
      obtain ⟨v', hv, hp⟩ := map_eq_ok.mp hdec
      cases hp
      exact stable2_remb hv hcov
    | ccfb v =>
      simp only [Packet.kind, decKind] at hdec
      obtain ⟨v', hv, hp⟩ := map_eq_ok.mp hdec
      cases hp
      exact stable2_ccfb hv hcov (enc_of_encP_ccfb henc)
    | twcc v =>
      simp only [Packet.kind, decKind] at hdec
      obtain ⟨v', hv, hp⟩ := map_eq_ok.mp hdec
      cases hp
      exact stable2_twcc hv hcov
    | xr v =>
      simp only [Packet.kind, decKind] at hdec
      obtain ⟨v', hv, hp⟩ := map_eq_ok.mp hdec
      cases hp
      exact stable2_xr hf hv
    | sli v => exact (no_sli hf hdec').elim
    | sr v => exact absurd (by simp [covered, Packet.kind]) hk
    | rr v => exact absurd (by simp [covered, Packet.kind]) hk
    | sdes v => exact absurd (by simp [covered, Packet.kind]) hk
    | bye v => exact absurd (by simp [covered, Packet.kind]) hk
    | app v => exact absurd (by simp [covered, Packet.kind]) hk
    | nack v => exact absurd (by simp [covered, Packet.kind]) hk
    | rrr v => exact absurd (by simp [covered, Packet.kind]) hk
    | pli v => exact absurd (by simp [covered, Packet.kind]) hk
    | fir v => exact absurd (by simp [covered, Packet.kind]) hk
    | raw b => exact absurd (by simp [covered, Packet.kind]) hk

/-! ### lists -/

/-- a list of stable packets: Marshal concatenates the frames and leaves the list as `ps.map post`; Unmarshal reads
that list back, and re-marshalling it gives the same octets and changes nothing any more -/
theorem list_stable2 (ps : List Packet) (h : ∀ p ∈ ps, Stable2 p) :
    ∃ b, uencP ps = .ok (b, ps.map post) ∧ ps.length * 4 ≤ b.length ∧
      (∀ gas, ps.length < gas → unmarshalLoop gas b = .ok (ps.map post)) ∧
      uencP (ps.map post) = .ok (b, ps.map post) := by
  induction ps with
  | nil =>
    refine ⟨[], rfl, by simp, ?_, rfl⟩
    intro gas hg
    cases gas with
    | zero => omega
    | succ g => simp [unmarshalLoop]
  | cons p ps ih =>
    obtain ⟨b, hb, hlen, hloop, hre⟩ := ih (fun q hq => h q (by simp [hq]))
    obtain ⟨f, hd, he, hf, hdec, hq⟩ := h p (by simp)
    have hf4 := hf.facts.1
    refine ⟨f ++ b, by simp [uencP, he, hb], by simp; omega, ?_, by simp [uencP, hq, hre, post_post]⟩
    intro gas hg
    cases gas with
    | zero => omega
    | succ g =>
      rw [unmarshalLoop_cons2 f b hd hf g, hdec, bind_ok, hloop g (by simp at hg; omega), bind_ok]
      rfl

/-- **HEADLINE — idempotence on accepted datagrams, all packet kinds.** For every datagram `b` accepted by
`rtcp.Unmarshal` whose packets meet their side conditions (`coveredAll`: none for twelve kinds, consistent header for
TWCC, unsaturated bitrate for REMB, size within the length field for CCFB): whenever `rtcp.Marshal` of the returned
packets succeeds with `b2`, `b2` is accepted again and decodes to the packet list as Marshal left it (`post`: XR block
headers filled in, everything else EQUAL), and that list marshals to `b2` again. -/
theorem idem_accepted_all (b : Bytes) (ps : List Packet) (b2 : Bytes) (h : udec b = .ok ps)
    (hc : ∀ p ∈ ps, coveredAll p) (he : uenc ps = .ok b2) :
    ∃ ps2, udec b2 = .ok ps2 ∧ uenc ps2 = .ok b2 ∧ ps2 = ps.map post := by
  unfold udec at h
  obtain ⟨qs, hq, h⟩ := bind_eq_ok.mp h
  split at h
  · cases h
  · rename_i hne
    simp at h
    subst h
    unfold uenc at he
    obtain ⟨⟨b2', ps'⟩, hu, he⟩ := bind_eq_ok.mp he
    simp at he
    subst he
    have henc := encP_of_uencP qs b2' ps' hu
    have hst : ∀ p ∈ qs, Stable2 p := by
      intro p hp
      obtain ⟨f, hd, hf, hdec⟩ := loop_packets_framed _ _ _ hq p hp
      exact stable2_of_decoded hf hdec (hc p hp) (henc p hp)
    obtain ⟨b3, hb3, hlen, hloop, hre⟩ := list_stable2 qs hst
    rw [hb3] at hu
    simp at hu
    obtain ⟨hu1, hu2⟩ := hu
    subst hu1
    refine ⟨qs.map post, ?_, by simp [uenc, hre], rfl⟩
    unfold udec
    rw [hloop (b3.length + 1) (by omega), bind_ok]
    rw [if_neg (by simpa using hne)]
    rfl

/-- what Marshal returns alongside the octets is that list: in Go, the packets after the call -/
theorem marshal_leaves_post (b : Bytes) (ps : List Packet) (b2 : Bytes) (h : udec b = .ok ps)
    (hc : ∀ p ∈ ps, coveredAll p) (he : uenc ps = .ok b2) : uencP ps = .ok (b2, ps.map post) := by
  unfold udec at h
  obtain ⟨qs, hq, h⟩ := bind_eq_ok.mp h
  split at h
  · cases h
  · simp at h
    subst h
    unfold uenc at he
    obtain ⟨⟨b2', ps'⟩, hu, he⟩ := bind_eq_ok.mp he
    simp at he
    subst he
    have henc := encP_of_uencP qs b2' ps' hu
    have hst : ∀ p ∈ qs, Stable2 p := by
      intro p hp
      obtain ⟨f, hd, hf, hdec⟩ := loop_packets_framed _ _ _ hq p hp
      exact stable2_of_decoded hf hdec (hc p hp) (henc p hp)
    obtain ⟨b3, hb3, _⟩ := list_stable2 qs hst
    rw [hb3] at hu
    simp at hu
    rw [hb3, hu.1]

/-- the second decoding is a fixed point of the whole cycle: decoding, marshalling and decoding it again changes nothing -/
theorem idem_accepted_all_fixed (b : Bytes) (ps : List Packet) (b2 : Bytes) (h : udec b = .ok ps)
    (hc : ∀ p ∈ ps, coveredAll p) (he : uenc ps = .ok b2) :
    udec b2 = .ok (ps.map post) ∧ uencP (ps.map post) = .ok (b2, ps.map post) := by
  obtain ⟨ps2, h1, h2, h3⟩ := idem_accepted_all b ps b2 h hc he
  subst h3
  refine ⟨h1, ?_⟩
  have hm := marshal_leaves_post b ps b2 h hc he
  unfold udec at h
  obtain ⟨qs, hq, h⟩ := bind_eq_ok.mp h
  split at h
  · cases h
  · simp at h
    subst h
    have henc := encP_of_uencP qs b2 _ hm
    have hst : ∀ p ∈ qs, Stable2 p := by
      intro p hp
      obtain ⟨f, hd, hf, hdec⟩ := loop_packets_framed _ _ _ hq p hp
      exact stable2_of_decoded hf hdec (hc p hp) (henc p hp)
    obtain ⟨b3, hb3, _, _, hre⟩ := list_stable2 qs hst
    rw [hb3] at hm
    simp at hm
    rw [← hm]; exact hre

/-- **plain equality**: when no ExtendedReport block header is changed by Marshal (in particular when the datagram
holds no XR packet) the second decoding returns an EQUAL packet list -/
theorem idem_accepted_all_eq (b : Bytes) (ps : List Packet) (b2 : Bytes) (h : udec b = .ok ps)
    (hc : ∀ p ∈ ps, coveredAll p) (hx : ∀ p ∈ ps, post p = p) (he : uenc ps = .ok b2) :
    udec b2 = .ok ps ∧ uenc ps = .ok b2 := by
  obtain ⟨ps2, h1, _, h3⟩ := idem_accepted_all b ps b2 h hc he
  have : ps.map post = ps := by
    calc ps.map post = ps.map id := List.map_congr_left hx
      _ = ps := by simp
  rw [h3, this] at h1
  exact ⟨h1, he⟩

theorem post_eq_of_not_xr {p : Packet} (h : p.kind ≠ .xr) : post p = p := by
  cases p <;> first | rfl | exact absurd rfl h

/-! ### the side conditions, seen from the frame -/

theorem decBlocksP_size (gas : Nat) (rest : Bytes) (ts : Nat) (bs : List CcfbBlock) (h : decBlocksP gas rest ts = (bs, .ok))
    (hl : rest.length = ts + 4) (h4 : ts % 4 = 0) : blocksLen bs ≤ ts + 4 := by
  induction gas generalizing rest ts bs with
  | zero => simp [decBlocksP] at h
  | succ g ih =>
    unfold decBlocksP at h
    split at h
    · simp at h; subst h; simp [blocksLen]
    · rename_i hts
      cases hd : CcfbBlock.dec rest with
      | ok blk =>
        rw [hd] at h
        dsimp only at h
        cases hrec : decBlocksP g (rest.drop blk.len) (ts - blk.len) with
        | mk bs' st =>
          rw [hrec] at h
          simp at h
          obtain ⟨h1, h2⟩ := h
          subst h2; subst h1
          -- the block read lies inside `rest`, and so does its padded length
          have hfit : blk.len ≤ rest.length := by
            have hm := CcfbBlock.len_mod4 blk
            have hle := CcfbBlock.len_eq blk
            unfold ccfbPad at hle
            unfold CcfbBlock.dec at hd
            split at hd
            · cases hd
            · rename_i h8
              simp only [reportsOffset, Nat.not_lt] at h8
              obtain ⟨media, _, hd⟩ := bind_eq_ok.mp hd
              obtain ⟨bsq, _, hd⟩ := bind_eq_ok.mp hd
              obtain ⟨field, _, hd⟩ := bind_eq_ok.mp hd
              split at hd
              · simp at hd; subst hd; simp at hle; omega
              · split at hd
                · cases hd
                · dsimp only at hd
                  split at hd
                  · cases hd
                  · rename_i hnum
                    obtain ⟨ms, hms, hd⟩ := bind_eq_ok.mp hd
                    simp at hd; subst hd
                    obtain ⟨i1, _⟩ := decMetrics_image _ _ _ _ hms
                    simp only [reportsOffset, Nat.not_lt] at hnum
                    simp only at hle
                    rw [i1] at hle
                    split at hle <;> omega
          rw [blocksLen_cons]
          by_cases hlt : blk.len ≤ ts
          · have := ih (rest.drop blk.len) (ts - blk.len) bs' hrec (by simp only [List.length_drop]; omega)
              (by have := CcfbBlock.len_mod4 blk; omega)
            omega
          · -- the last block overlaps the timestamp: the loop stops
            have hz : ts - blk.len = 0 := by omega
            rw [hz] at hrec
            have : bs' = [] := by
              cases g with
              | zero => simp [decBlocksP] at hrec
              | succ g' => simp [decBlocksP] at hrec; exact hrec
            subst this
            simp [blocksLen]; omega
      | err => rw [hd] at h; simp [Out.status] at h
      | panic => rw [hd] at h; simp [Out.status] at h
      | diverge => rw [hd] at h; simp [Out.status] at h

/-- a decoded CCFB report re-encodes to at most four octets more than the frame it came from (a last block that
overlaps the report timestamp) … -/
theorem ccfb_decoded_size {f : Bytes} {v : Ccfb} (h : Ccfb.dec f = .ok v) (h4 : f.length % 4 = 0) :
    v.marshalSize ≤ f.length + 4 := by
  have ⟨hst, hv⟩ := Status.toOut_eq_ok h
  unfold Ccfb.decP at hst hv
  split at hst
  · simp at hst
  · rename_i hlen
    rw [if_neg hlen] at hv
    simp only [headerLength, ssrcLength, reportTimestampLength, Nat.not_lt] at hlen
    cases hh : Header.dec f with
    | ok hd =>
      simp only [hh] at hst hv
      split at hst
      · simp at hst
      · rename_i ht
        rw [if_neg ht] at hv
        cases h1 : u32At f headerLength with
        | ok s =>
          cases h2 : u32At f (f.length - reportTimestampLength) with
          | ok ts =>
            simp only [h1, h2] at hst hv
            cases hrec : decBlocksP (f.length + 1) (f.drop reportBlockOffset) (f.length - reportTimestampLength - reportBlockOffset) with
            | mk bs st =>
              rw [hrec] at hst hv
              dsimp only at hst hv
              subst hst
              subst hv
              have := decBlocksP_size _ _ _ _ hrec (by simp only [List.length_drop, reportBlockOffset, reportTimestampLength]; omega)
                (by simp only [reportBlockOffset, reportTimestampLength]; omega)
              rw [Ccfb.size_eq]
              show 12 + blocksLen bs ≤ f.length + 4
              simp only [reportBlockOffset, reportTimestampLength] at this
              omega
          | err => simp [h1, h2] at hst
          | panic => simp [h1, h2] at hst
          | diverge => simp [h1, h2] at hst
        | err => simp [h1] at hst
        | panic => simp [h1] at hst
        | diverge => simp [h1] at hst
    | err => simp [hh, Out.status] at hst
    | panic => simp [hh, Out.status] at hst
    | diverge => simp [hh, Out.status] at hst

/-- … so every CCFB report decoded from a frame of at most 262140 octets (length field below 0xFFFF) meets its side
condition: only a 262144-octet frame can fail it -/
theorem ccfb_covered_of_frame {f : Bytes} {hd : Header} {v : Ccfb} (hf : Framed2 f hd) (h : Ccfb.dec f = .ok v)
    (hshort : f.length ≤ 262140) : coveredAll (.ccfb v) := by
  have := ccfb_decoded_size h hf.facts.2.1
  show v.marshalSize ≤ 262144
  omega

/-- every REMB decoded from a wire pair with a non-zero mantissa meets its side condition -/
theorem remb_covered_of_value {v : Remb} {e m : Nat} (he : e < 64) (hm0 : 0 < m) (hm : m < 262144)
    (hb : rembDecBits e m = .ok v.bitrate) : coveredAll (.remb v) := by
  obtain ⟨bits', hb', _, hfl, _⟩ := rembDecBits_facts e m he hm0 hm
  rw [hb] at hb'
  have hbv : v.bitrate = bits' := Out.ok.inj hb'
  show f32Floor v.bitrate ≤ Spec.rembMax
  rw [hbv, hfl]
  unfold Spec.rembMax
  exact Nat.mul_le_mul (by omega) (Nat.pow_le_pow_right (by decide) (by omega))

/-! ### the REMB finding: outside `Remb.Unsaturated` the cycle is NOT idempotent -/

/-- **KF-REMB-MANT0, seen from C09** (reproduced against the Go library): exponent 63, mantissa 0 is accepted and decodes
to 2^86; Marshal saturates it to (0x3FFFF, 63); those octets decode to 0x3FFFF·2^63 — a different packet. The side
condition `Remb.Unsaturated` of the headline theorem is therefore necessary. -/
theorem KF_remb_mant0_not_idempotent :
    let b : Bytes := [143, 206, 0, 5, 0, 0, 0, 1, 0, 0, 0, 0, 82, 69, 77, 66, 1, 252, 0, 0, 0, 0, 0, 2]
    let b2 : Bytes := [143, 206, 0, 5, 0, 0, 0, 1, 0, 0, 0, 0, 82, 69, 77, 66, 1, 255, 255, 255, 0, 0, 0, 2]
    udec b = .ok [.remb ⟨1, 0x6a800000, [2]⟩] ∧ uenc [.remb ⟨1, 0x6a800000, [2]⟩] = .ok b2 ∧
      udec b2 = .ok [.remb ⟨1, 1744830400, [2]⟩] ∧ ¬ coveredAll (.remb ⟨1, 0x6a800000, [2]⟩) ∧
      -- from the second decoding on it is stable
      uenc [.remb ⟨1, 1744830400, [2]⟩] = .ok b2 := by decide

/-! ### non-vacuity -/

/-- a REMB with an UNNORMALISED pair (exponent 10, mantissa 3: Marshal would send 3072·2^0) and two SSRCs; a CCFB report
with an empty block and a block announcing num_reports = 2, i.e. three metric blocks and two octets of padding -/
def exDatagram2 : Bytes :=
  [143, 206, 0, 6,  0, 0, 0, 1,  0, 0, 0, 0,  82, 69, 77, 66,  2, 40, 0, 3,  0, 0, 0, 7,  0, 0, 0, 8,
   139, 205, 0, 8,  0, 0, 0, 1,  0, 0, 0, 2,  0, 9, 0, 0,  0, 0, 0, 3,  255, 253, 0, 2,  0xA0, 5, 0, 0, 0x80, 0, 9, 9,
     0, 0, 0, 4]
def exPackets2 : List Packet :=
  [.remb { sender := 1, bitrate := 0x45400000, ssrcs := [7, 8] },
   .ccfb { sender := 1, blocks := [{ media := 2, beginSeq := 9, metrics := [] },
                                   { media := 3, beginSeq := 65533, metrics := [⟨true, 1, 5⟩, ⟨false, 0, 0⟩, ⟨true, 0, 0⟩] }],
           timestamp := 4 }]
/-- what Marshal gives back: the REMB pair normalised (mantissa 3072, exponent 0), the CCFB padding zeroed -/
def exReenc2 : Bytes :=
  [143, 206, 0, 6,  0, 0, 0, 1,  0, 0, 0, 0,  82, 69, 77, 66,  2, 0, 12, 0,  0, 0, 0, 7,  0, 0, 0, 8,
   139, 205, 0, 8,  0, 0, 0, 1,  0, 0, 0, 2,  0, 9, 0, 0,  0, 0, 0, 3,  255, 253, 0, 2,  0xA0, 5, 0, 0, 0x80, 0, 0, 0,
     0, 0, 0, 4]

example : udec exDatagram2 = .ok exPackets2 := by decide
example : ∀ p ∈ exPackets2, coveredAll p := by decide
example : uenc exPackets2 = .ok exReenc2 := by decide
example : exReenc2 ≠ exDatagram2 := by decide
/-- the theorem applied: equal packet list (no XR in it), same octets -/
example : udec exReenc2 = .ok exPackets2 ∧ uenc exPackets2 = .ok exReenc2 :=
  idem_accepted_all_eq exDatagram2 exPackets2 exReenc2 (by decide) (by decide) (by decide) (by decide)

/-- XR and TWCC: a Loss RLE block with reserved bits set in its type-specific octet (0xF5) and a receiver reference time
block whose block length (3) runs over four trailing octets; a TWCC packet whose run length (5) overshoots the status
count (3) and that carries three octets of padding, the first of them garbage -/
def exDatagram3 : Bytes :=
  [128, 207, 0, 9,  0, 0, 0, 1,  1, 0xF5, 0, 3,  0, 0, 0, 2,  0, 1, 0, 2,  0x80, 1, 0x40, 2,
     4, 9, 0, 3,  1, 2, 3, 4, 5, 6, 7, 8,  9, 9, 9, 9,
   175, 205, 0, 6,  0, 0, 0, 1,  0, 0, 0, 2,  0, 3, 0, 3,  0, 4, 5, 6,  0x20, 5, 1, 2, 3, 77, 0, 3]
def exTwcc : Twcc :=
  { header := ⟨true, 15, 205, 6⟩, sender := 1, media := 2, baseSeq := 3, statusCount := 3, refTime := 0x000405, fbCount := 6,
    chunks := [.rl 0 1 5], deltas := [⟨1, 250⟩, ⟨1, 500⟩, ⟨1, 750⟩] }
def exPackets3 : List Packet :=
  [.xr { sender := 1, blocks := [{ kind := 1, bt := 1, ts := 0xF5, bl := 3, omits := [5], vals := [2, 1, 2], elems := [[0x8001], [0x4002]] },
                                 { kind := 4, bt := 4, ts := 9, bl := 3, vals := [0x0102030405060708] }] },
   .twcc exTwcc]
def exReenc3 : Bytes :=
  [128, 207, 0, 8,  0, 0, 0, 1,  1, 5, 0, 3,  0, 0, 0, 2,  0, 1, 0, 2,  0x80, 1, 0x40, 2,
     4, 0, 0, 2,  1, 2, 3, 4, 5, 6, 7, 8,
   175, 205, 0, 6,  0, 0, 0, 1,  0, 0, 0, 2,  0, 3, 0, 3,  0, 4, 5, 6,  0x20, 5, 1, 2, 3, 0, 0, 3]

set_option maxRecDepth 4096 in
theorem exDatagram3_dec : udec exDatagram3 = .ok exPackets3 := by decide
example : ∀ p ∈ exPackets3, coveredAll p := by decide
example : uenc exPackets3 = .ok exReenc3 := by decide
/-- the decoded TWCC value is outside `Twcc.WFq` (its run length is clipped), and Marshal changes the XR block headers -/
example : ¬ exTwcc.WFq ∧ exPackets3.map post ≠ exPackets3 := by decide
/-- the theorem applied -/
example : ∃ ps2, udec exReenc3 = .ok ps2 ∧ uenc ps2 = .ok exReenc3 ∧ ps2 = exPackets3.map post :=
  idem_accepted_all exDatagram3 exPackets3 exReenc3 exDatagram3_dec (by decide) (by decide)

end Rtcp.C09
