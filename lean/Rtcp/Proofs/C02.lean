/-
  C02 — encode-then-decode returns the original packet for every well-formed value.
  `WF` per type: Model/WF.lean. Quantisation: `ReceiverReport.quant` pads profile extensions to 32 bits.
  Proved here for SR, RR, SDES, BYE, APP, NACK, RRR, PLI, FIR, SLI (own decoder) and RawPacket, and for every
  finite list of such packets through rtcp.Marshal / rtcp.Unmarshal, including the re-marshal.
  Known findings excluded by hypothesis: SLI through the datagram path (KF-SLI-PT); a frame of exactly
  262144 octets (Length = 0xFFFF) is not cut by rtcp.Unmarshal (KF-LEN-FFFF).
  REMB: Proofs/C14. TWCC, CCFB, XR: correspondence only at this point (see evidence `types_proved`).
-/
import Rtcp.Lemmas.Frame
namespace Rtcp.C02
open Rtcp Gen Out
set_option linter.unusedSimpArgs false
set_option linter.unusedVariables false

/-! ### each type's own decoder -/

theorem sr_roundtrip (v : SenderReport) (h : v.WF) : (v.enc >>= SenderReport.dec) = .ok v := SenderReport.roundtrip v h
theorem rr_roundtrip (v : ReceiverReport) (h : v.WF) : (v.enc >>= ReceiverReport.dec) = .ok v.quant := ReceiverReport.roundtrip v h
theorem sdes_roundtrip (v : SourceDescription) (h : v.WF) : (v.enc >>= SourceDescription.dec) = .ok v := SourceDescription.roundtrip v h
theorem bye_roundtrip (v : Goodbye) (h : v.WF) : (v.enc >>= Goodbye.dec) = .ok v := Goodbye.roundtrip v h
theorem app_roundtrip (v : ApplicationDefined) (h : v.WF) : (v.enc >>= ApplicationDefined.dec) = .ok v := ApplicationDefined.roundtrip v h
theorem nack_roundtrip (v : TransportLayerNack) (h : v.WF) : (v.enc >>= TransportLayerNack.dec) = .ok v := TransportLayerNack.roundtrip v h
theorem rrr_roundtrip (v : RapidResync) (h : v.WF) : (v.enc >>= RapidResync.dec) = .ok v := RapidResync.roundtrip v h
theorem pli_roundtrip (v : PictureLossIndication) (h : v.WF) : (v.enc >>= PictureLossIndication.dec) = .ok v := PictureLossIndication.roundtrip v h
theorem sli_roundtrip_own (v : SliceLossIndication) (h : v.WF) : (v.enc >>= SliceLossIndication.dec) = .ok v := SliceLossIndication.roundtrip v h
theorem fir_roundtrip (v : FullIntraRequest) (h : v.WF) : (v.enc >>= FullIntraRequest.dec) = .ok v := FullIntraRequest.roundtrip v h

/-- RawPacket: any octets starting with a version-2 header -/
theorem raw_roundtrip (b : Bytes) (h : 4 ≤ b.length) (hv : get8 b 0 / 64 % 4 = 2) :
    ((Packet.raw b).enc >>= decKind .raw) = .ok (.raw b) := by
  simp only [Packet.enc, Packet.encP, bind_ok, pure_eq, decKind, rawDec]
  rw [if_neg (by simp; omega)]
  unfold Header.dec
  rw [if_neg (by simp; omega), u8At_of_lt (by omega), bind_ok, if_neg (by simp [hv]), u8At_of_lt (by omega), u16At_of_le (by omega)]
  rfl

/-! ### lists of packets through the datagram functions -/

/-- the documented quantisations -/
def quant : Packet → Packet
  | .rr v => .rr v.quant
  | p => p

/-- well-formed packets for which the datagram round trip is proved -/
inductive DWF : Packet → Prop
  | sr (v : SenderReport) (h : v.WF) (hs : v.marshalSize ≤ 262140) : DWF (.sr v)
  | rr (v : ReceiverReport) (h : v.WF) (hs : v.marshalSize ≤ 262140) : DWF (.rr v)
  | sdes (v : SourceDescription) (h : v.WF) (hs : v.marshalSize ≤ 262140) : DWF (.sdes v)
  | bye (v : Goodbye) (h : v.WF) : DWF (.bye v)
  | app (v : ApplicationDefined) (h : v.WF) : DWF (.app v)
  | nack (v : TransportLayerNack) (h : v.WF) : DWF (.nack v)
  | rrr (v : RapidResync) (h : v.WF) : DWF (.rrr v)
  | pli (v : PictureLossIndication) (h : v.WF) : DWF (.pli v)
  | fir (v : FullIntraRequest) (h : v.WF) : DWF (.fir v)

/-- one well-formed packet: its encoding is a frame that the datagram decoder dispatches back to the same Go type
and decodes to the (quantised) original -/
theorem frame_of_DWF (p : Packet) (h : DWF p) :
    ∃ f hd, p.encP = .ok (f, p) ∧ Framed f hd ∧ decKind (dispatch hd.type hd.count) f = .ok (quant p) ∧ f.length = p.marshalSize := by
  cases h with
  | sr v h hs =>
    obtain ⟨f, he, hf, hl⟩ := SenderReport.framed v h hs
    refine ⟨f, v.header, by simp [Packet.encP, he], hf, ?_, hl⟩
    have := SenderReport.roundtrip v h; rw [he, bind_ok] at this
    show decKind (dispatch TypeSenderReport _) f = _
    simp [dispatch, decKind, this, quant]
  | rr v h hs =>
    obtain ⟨f, he, hf, hl⟩ := ReceiverReport.framed v h hs
    refine ⟨f, v.header, by simp [Packet.encP, he], hf, ?_, hl⟩
    have := ReceiverReport.roundtrip v h; rw [he, bind_ok] at this
    show decKind (dispatch TypeReceiverReport _) f = _
    simp [dispatch, decKind, this, quant]
  | sdes v h hs =>
    obtain ⟨f, he, hf, hl⟩ := SourceDescription.framed v h hs
    refine ⟨f, v.header, by simp [Packet.encP, he], hf, ?_, hl⟩
    have := SourceDescription.roundtrip v h; rw [he, bind_ok] at this
    show decKind (dispatch TypeSourceDescription _) f = _
    simp [dispatch, decKind, this, quant]
  | bye v h =>
    obtain ⟨f, he, hf, hl⟩ := Goodbye.framed v h
    refine ⟨f, v.header, by simp [Packet.encP, he], hf, ?_, hl⟩
    have := Goodbye.roundtrip v h; rw [he, bind_ok] at this
    show decKind (dispatch TypeGoodbye _) f = _
    simp [dispatch, decKind, this, quant]
  | app v h =>
    obtain ⟨f, hd, he, hf, ht, hl⟩ := ApplicationDefined.framed v h
    refine ⟨f, hd, by simp [Packet.encP, he], hf, ?_, hl⟩
    have := ApplicationDefined.roundtrip v h; rw [he, bind_ok] at this
    rw [ht]
    simp [dispatch, decKind, this, quant]
  | nack v h =>
    obtain ⟨f, he, hf, hl⟩ := TransportLayerNack.framed v h
    refine ⟨f, v.header, by simp [Packet.encP, he], hf, ?_, hl⟩
    have := TransportLayerNack.roundtrip v h; rw [he, bind_ok] at this
    show decKind (dispatch TypeTransportSpecificFeedback FormatTLN) f = _
    simp [dispatch, decKind, this, quant]
  | rrr v h =>
    obtain ⟨f, he, hf, hl⟩ := RapidResync.framed v
    refine ⟨f, v.header, by simp [Packet.encP, he], hf, ?_, hl⟩
    have := RapidResync.roundtrip v h; rw [he, bind_ok] at this
    show decKind (dispatch TypeTransportSpecificFeedback FormatRRR) f = _
    simp [dispatch, decKind, this, quant]
  | pli v h =>
    obtain ⟨f, he, hf, hl⟩ := PictureLossIndication.framed v
    refine ⟨f, v.header, by simp [Packet.encP, he], hf, ?_, hl⟩
    have := PictureLossIndication.roundtrip v h; rw [he, bind_ok] at this
    show decKind (dispatch TypePayloadSpecificFeedback FormatPLI) f = _
    simp [dispatch, decKind, this, quant]
  | fir v h =>
    obtain ⟨f, he, hf, hl⟩ := FullIntraRequest.framed v h
    refine ⟨f, v.header, by simp [Packet.encP, he], hf, ?_, hl⟩
    have := FullIntraRequest.roundtrip v h; rw [he, bind_ok] at this
    show decKind (dispatch TypePayloadSpecificFeedback FormatFIR) f = _
    simp [dispatch, decKind, this, quant]

theorem list_roundtrip_aux (ps : List Packet) (h : ∀ p ∈ ps, DWF p) :
    ∃ b, uencP ps = .ok (b, ps) ∧ ps.length * 4 ≤ b.length ∧ b.length = csize ps ∧
      ∀ gas, ps.length < gas → unmarshalLoop gas b = .ok (ps.map quant) := by
  induction ps with
  | nil =>
    refine ⟨[], rfl, by simp, by simp [csize], ?_⟩
    intro gas hg
    cases gas with
    | zero => omega
    | succ g => simp [unmarshalLoop]
  | cons p ps ih =>
    obtain ⟨b, hb, hlen, hsz, hloop⟩ := ih (fun q hq => h q (by simp [hq]))
    obtain ⟨f, hd, he, hf, hdec, hfl⟩ := frame_of_DWF p (h p (by simp))
    have hf4 : 4 ≤ f.length := by have := hf.size; omega
    refine ⟨f ++ b, by simp [uencP, he, hb], by simp; omega, by simp [csize] at hsz ⊢; omega, ?_⟩
    intro gas hg
    cases gas with
    | zero => omega
    | succ g =>
      rw [unmarshalLoop_cons f b hd hf g, hdec, bind_ok, hloop g (by simp at hg; omega), bind_ok]
      rfl

/-- **Unmarshal(Marshal(list)) returns an equal list in order** (modulo the documented quantisation), with the same
concrete types (the constructors of `Packet` are the Go types) -/
theorem rt_datagram (ps : List Packet) (hne : ps ≠ []) (h : ∀ p ∈ ps, DWF p) :
    (uenc ps >>= udec) = .ok (ps.map quant) := by
  obtain ⟨b, hb, hlen, hsz, hloop⟩ := list_roundtrip_aux ps h
  simp only [uenc, hb, bind_ok, pure_eq, udec]
  rw [hloop (b.length + 1) (by omega), bind_ok]
  rw [if_neg (by simp; exact hne)]

theorem rr_quant_facts (v : ReceiverReport) (hv : v.WF) :
    v.quant.marshalSize = v.marshalSize ∧ v.quant.WF ∧ v.quant.enc = v.enc := by
  have hp := getPadding_lt v.ext.length
  have hm := add_getPadding_mod v.ext.length
  have hpz : getPadding (v.ext.length + getPadding v.ext.length) = 0 := getPadding_eq_zero hm
  have hqs : v.quant.marshalSize = v.marshalSize := by
    simp only [ReceiverReport.marshalSize, ReceiverReport.quant, List.length_append, zeros_length, hpz]
    omega
  have hq : v.quant.WF := by
    obtain ⟨a1, a2, a3, a4⟩ := hv
    exact ⟨a1, a2, a3, by rw [hqs]; exact a4⟩
  refine ⟨hqs, hq, ?_⟩
  rw [ReceiverReport.enc_ok v hv, ReceiverReport.enc_ok v.quant hq]
  have hh : v.quant.header = v.header := by
    simp only [ReceiverReport.header, hqs]; rfl
  rw [hh]
  simp only [ReceiverReport.quant, List.length_append, zeros_length, hpz, zeros, List.length_replicate, List.replicate_zero, List.append_nil, List.append_assoc]

/-- quantisation keeps packets well-formed and does not change what Marshal emits -/
theorem quant_DWF (p : Packet) (h : DWF p) : DWF (quant p) := by
  cases h with
  | rr v hv hs =>
    have ⟨h1, h2, _⟩ := rr_quant_facts v hv
    exact .rr _ h2 (by rw [h1]; exact hs)
  | sr v h hs => exact .sr v h hs
  | sdes v h hs => exact .sdes v h hs
  | bye v h => exact .bye v h
  | app v h => exact .app v h
  | nack v h => exact .nack v h
  | rrr v h => exact .rrr v h
  | pli v h => exact .pli v h
  | fir v h => exact .fir v h

theorem quant_encP (p : Packet) (h : DWF p) (f : Bytes) (he : p.encP = .ok (f, p)) : (quant p).encP = .ok (f, quant p) := by
  cases h with
  | rr v hv hs =>
    have ⟨_, _, h3⟩ := rr_quant_facts v hv
    simp only [Packet.encP] at he ⊢
    obtain ⟨b, hb, he⟩ := bind_eq_ok.mp he
    simp at he
    simp only [quant]
    rw [h3, hb, bind_ok]; simp [he]
  | sr v h hs => exact he
  | sdes v h hs => exact he
  | bye v h => exact he
  | app v h => exact he
  | nack v h => exact he
  | rrr v h => exact he
  | pli v h => exact he
  | fir v h => exact he

/-- **re-marshalling the decoded packets reproduces the same bytes** -/
theorem rebytes (ps : List Packet) (h : ∀ p ∈ ps, DWF p) : uenc (ps.map quant) = uenc ps := by
  have key : ∀ ps : List Packet, (∀ p ∈ ps, DWF p) → ∀ b, uencP ps = .ok (b, ps) → uencP (ps.map quant) = .ok (b, ps.map quant) := by
    intro ps
    induction ps with
    | nil => intro _ b hb; simpa [uencP] using hb
    | cons p ps ih =>
      intro hall b hb
      simp only [uencP] at hb
      obtain ⟨⟨a, p'⟩, hp, hb⟩ := bind_eq_ok.mp hb
      obtain ⟨⟨r, ps'⟩, hr, hb⟩ := bind_eq_ok.mp hb
      simp at hb
      obtain ⟨hb1, hb3, hb4⟩ := hb
      subst hb3; subst hb4
      have h1 := quant_encP p' (hall p' (by simp)) a hp
      have h2 := ih (fun q hq => hall q (by simp [hq])) r hr
      simp only [List.map_cons, uencP, h1, bind_ok, h2]
      simp [hb1]
  obtain ⟨b, hb, _⟩ := list_roundtrip_aux ps h
  simp only [uenc, hb, key ps h b hb, bind_ok]

/-- non-vacuity: a compound-shaped list satisfies the hypotheses -/
example : DWF (.rr { ssrc := 1, reports := [{ ssrc := 2, totalLost := 16777215 }], ext := [1, 2, 3] }) :=
  .rr _ (by decide) (by decide)

end Rtcp.C02
