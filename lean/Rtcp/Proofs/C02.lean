import Rtcp.Lemmas.Safe6
namespace Rtcp.C02
end Rtcp.C02
