/-
  C07, regenerated tie: the dispatch of packet.go `unmarshal`, read off the AST of the current source on every run
  (tools/extract/dispatch.go → Gen/Dispatch.lean), is the table of the property. A case that is changed, added or
  dropped in the source (also one that leaves `packet` nil) breaks these theorems at build time, before any input is run.
-/
import Rtcp.Proofs.C07
import Rtcp.Gen.Dispatch
namespace Rtcp.C07
open Rtcp Gen

/-- the Go type a model kind stands for -/
def goTypeName : Kind → String
  | .sr => "SenderReport" | .rr => "ReceiverReport" | .sdes => "SourceDescription" | .bye => "Goodbye"
  | .app => "ApplicationDefined" | .nack => "TransportLayerNack" | .rrr => "RapidResynchronizationRequest"
  | .twcc => "TransportLayerCC" | .ccfb => "CCFeedbackReport" | .pli => "PictureLossIndication"
  | .sli => "SliceLossIndication" | .remb => "ReceiverEstimatedMaximumBitrate" | .fir => "FullIntraRequest"
  | .xr => "ExtendedReport" | .raw => "RawPacket"

/-- the extractor understood every construct of the switch -/
theorem source_dispatch_tied : Gen.dispatchUntied = false := by decide

/-- **the source's switch is the property's table**: for all 256 × 32 headers the type allocated by the current
`unmarshal` is the one C07 registers (and never "nothing") -/
theorem source_dispatch_is_table :
    ∀ pt < 256, ∀ fmt < 32, Gen.dispatchLookup pt fmt = goTypeName (specTable pt fmt) := by decide +kernel

/-- hence the model's dispatcher, which the datagram theorems are about, is the source's -/
theorem model_dispatch_is_source :
    ∀ pt < 256, ∀ fmt < 32, goTypeName (dispatch pt fmt) = Gen.dispatchLookup pt fmt := by
  intro pt hpt fmt hfmt
  rw [dispatch_table pt hpt fmt hfmt, source_dispatch_is_table pt hpt fmt hfmt]

example : Gen.dispatchLookup 206 4 = "FullIntraRequest" ∧ Gen.dispatchLookup 205 2 = "RawPacket" ∧
    Gen.dispatchLookup 199 7 = "RawPacket" := by decide

end Rtcp.C07
