/-
  C18 — codec operations are pure and safe to run concurrently.
  (1) histories: over the model's state machine `step`, every result is independent of what was called before;
  (2) schedules: an abstract shared-memory semantics in which operations with disjoint footprints commute,
      so any interleaving gives every thread its sequential results (Lemmas/Interleave.lean), instantiated with
      the write footprints regenerated from the source on every run (Gen/Footprint.lean) — `footprint_ok`.
  The Go memory model and scheduler themselves are not modelled (DESIGN §6 C18).
-/
import Rtcp.Model.Ops
import Rtcp.Gen.Footprint
import Rtcp.Gen.Resets
import Rtcp.Gen.MustWrite
import Rtcp.Lemmas.Interleave
import Rtcp.Lemmas.Bytes
namespace Rtcp.C18
open Rtcp Gen Out
set_option linter.unusedSimpArgs false
set_option linter.unusedVariables false

/-! ### (1) call histories on one packet -/

def readOnly : Op → Bool
  | .size | .dest | .string => true
  | _ => false

theorem readonly_keeps_state (p : Packet) (o : Op) (h : readOnly o = true) : (step p o).1 = p := by
  cases o <;> simp [readOnly] at h <;> rfl

theorem setup_wireSize (b : XRBlock) : b.setup.wireSize = b.wireSize := rfl

theorem setup_idem (b : XRBlock) : b.setup.setup = b.setup := by
  have h1 : b.setup.setupBt = b.setupBt := by
    simp only [XRBlock.setupBt, XRBlock.setup]; split <;> rfl
  have h2 : b.setup.setupTs = b.setupTs := by
    simp only [XRBlock.setupTs, XRBlock.setup]
    split <;> try rfl
    split <;> simp_all
  have h3 : b.setup.wireSize = b.wireSize := rfl
  show ({ b.setup with bt := b.setup.setupBt, ts := b.setup.setupTs, bl := (b.setup.wireSize / 4 + 65535) % 65536 } : XRBlock) = b.setup
  rw [h1, h2, h3]; rfl

theorem normalise_idem (p : Packet) : normalise (normalise p) = normalise p := by
  cases p <;> simp [normalise, setup_idem]

/-- what `Marshal` leaves behind is the normal form (the packet itself for every type but ExtendedReport) -/
theorem encP_state {p p' : Packet} {b : Bytes} (h : p.encP = .ok (b, p')) : p' = normalise p := by
  cases p <;> simp only [Packet.encP] at h
  case xr v =>
    obtain ⟨⟨b', v'⟩, hv, h⟩ := bind_eq_ok.mp h
    simp at h
    unfold XR.enc at hv
    obtain ⟨_, _, hv⟩ := bind_eq_ok.mp hv
    obtain ⟨_, _, hv⟩ := bind_eq_ok.mp hv
    simp at hv
    rw [← h.2, ← hv.2]; rfl
  case raw r => simp at h; rw [← h.2]; rfl
  all_goals (obtain ⟨_, _, h⟩ := bind_eq_ok.mp h; simp at h; rw [← h.2]; rfl)

/-- marshalling the normal form gives the same bytes and the same state as marshalling the original -/
theorem encP_normalise (p : Packet) : (normalise p).encP = p.encP := by
  cases p <;> try rfl
  case xr v =>
    simp only [normalise, Packet.encP, XR.enc, List.map_map]
    have : (XRBlock.setup ∘ XRBlock.setup) = XRBlock.setup := by funext b; exact setup_idem b
    rw [this]

theorem normalise_size (p : Packet) : (normalise p).marshalSize = p.marshalSize := by
  cases p <;> try rfl
  case xr v =>
    simp only [normalise, Packet.marshalSize, XR.marshalSize, XR.wireSize, List.map_map]
    have : (XRBlock.wireSize ∘ XRBlock.setup) = XRBlock.wireSize := by funext b; exact setup_wireSize b
    rw [this]

theorem setup_dest (b : XRBlock) : b.setup.dest = b.dest := rfl

theorem normalise_dest (p : Packet) : (normalise p).dest = p.dest := by
  cases p <;> try rfl
  case xr v =>
    simp only [normalise, Packet.dest, XR.dest, List.map_map]
    have : (XRBlock.dest ∘ XRBlock.setup) = XRBlock.dest := by funext b; exact setup_dest b
    rw [this]

theorem normalise_kind (p : Packet) : (normalise p).kind = p.kind := by cases p <;> rfl

/-- results do not depend on whether Marshal was called before -/
theorem step_result_normalise (p : Packet) (o : Op) : (step (normalise p) o).2 = (step p o).2 := by
  cases o with
  | marshal => simp only [step, encP_normalise]; cases p.encP <;> rfl
  | size => simp [step, normalise_size]
  | dest => simp [step, normalise_dest]
  | string => rfl
  | unmarshal b => simp only [step, normalise_kind]; cases decKind p.kind b <;> rfl

def noUnmarshal : Op → Bool
  | .unmarshal _ => false
  | _ => true

/-- after any history of Marshal/MarshalSize/DestinationSSRC/String the packet is itself or its normal form -/
theorem state_after_history (p : Packet) (ops : List Op) (h : ops.all noUnmarshal = true) :
    runOps p ops = p ∨ runOps p ops = normalise p := by
  induction ops generalizing p with
  | nil => left; rfl
  | cons o os ih =>
    simp only [List.all_cons, Bool.and_eq_true] at h
    have hstep : (step p o).1 = p ∨ (step p o).1 = normalise p := by
      cases o with
      | marshal =>
        simp only [step]
        cases hp : p.encP with
        | ok r => obtain ⟨b, p'⟩ := r; right; exact encP_state hp
        | err => left; rfl
        | panic => left; rfl
        | diverge => left; rfl
      | size => left; rfl
      | dest => left; rfl
      | string => left; rfl
      | unmarshal b => simp [noUnmarshal] at h
    simp only [runOps]
    rcases hstep with hs | hs
    · rw [hs]; exact ih p h.2
    · rw [hs]
      rcases ih (normalise p) h.2 with h1 | h1
      · right; exact h1
      · right; rw [h1, normalise_idem]

/-- **history independence**: whatever was called before (any order, any repetition), every operation returns
what it returns on the untouched packet -/
theorem history_independent (p : Packet) (ops : List Op) (o : Op) (h : ops.all noUnmarshal = true) :
    (step (runOps p ops) o).2 = (step p o).2 := by
  rcases state_after_history p ops h with hs | hs
  · rw [hs]
  · rw [hs, step_result_normalise]

/-- Unmarshal's outcome depends only on the bytes and the Go type, never on the receiver's history -/
theorem unmarshal_independent (p q : Packet) (b : Bytes) (hk : p.kind = q.kind) :
    (step p (.unmarshal b)).2 = (step q (.unmarshal b)).2 ∧
    (∀ r, decKind p.kind b = .ok r → (step p (.unmarshal b)).1 = r ∧ (step q (.unmarshal b)).1 = r) := by
  simp only [step, hk]
  constructor
  · cases decKind q.kind b <;> rfl
  · intro r hr; simp [hr]

/-- repeated Marshal returns identical bytes -/
theorem marshal_twice (p : Packet) : (step (step p .marshal).1 .marshal).2 = (step p .marshal).2 :=
  history_independent p [.marshal] .marshal rfl

/-! ### (2) footprints regenerated from the source -/

/-- operations the property calls read-only (plus the NACK helpers and compound accessors) -/
def isPureOp (m : String) : Bool :=
  m = "MarshalSize" || m = "DestinationSSRC" || m = "String" || m = "Header" || m = "Len" || m = "Marshal" ||
  m = "PacketList" || m = "NackPairsFromSequenceNumbers" || m = "CNAME" || m = "Validate"

/-- Marshal entry points that reach `ExtendedReport.Marshal` through the Packet / PacketStatusChunk interfaces:
the documented exception (block header fields are filled in) is allowed there, as *field stores only* -/
def xrException (r m : String) : Bool :=
  m = "Marshal" && (r = "ExtendedReport" || r = "CompoundPacket" || r = "" || r = "TransportLayerCC")

def fpOk (f : Footprint) : Bool :=
  f.writesGlobals.isEmpty && !f.writesUnknown &&
  (if f.recv = "" && f.method = "Unmarshal" then f.writesParams.isEmpty
   else if f.method = "Unmarshal" then f.writesParams.all (· == 0)
   else if xrException f.recv f.method then f.writesParams.all (· == 0) && f.elemWritesParams.isEmpty
   else if isPureOp f.method then f.writesParams.isEmpty
   else true)

set_option maxRecDepth 100000 in
/-- on the current source: no function of the package writes a package variable or untraceable memory;
Marshal (except through ExtendedReport), MarshalSize, DestinationSSRC, String, Header, Len write nothing that
is not freshly allocated; every Unmarshal writes only through its receiver and never through its argument.
Re-proved against Gen/Footprint.lean on every run. -/
theorem footprint_ok : footprints.all fpOk = true := by decide

/-! ### from footprints to schedules -/

open Interleave in
/-- an API call on packet number `pkt` as an abstract operation: it reads that packet's memory and, when it is a
writer (Unmarshal, ExtendedReport.Marshal), writes only that packet's memory — which is what `footprint_ok` gives -/
def apiOp (pkt : Loc) (writer : Bool) (run : Mem → Mem × Nat) : AOp :=
  { reads := [pkt], writes := if writer then [pkt] else [], run := run }

open Interleave in
theorem distinct_packets_independent (i j : Loc) (wi wj : Bool) (ri rj : Mem → Mem × Nat) (h : i ≠ j) :
    noInterf (apiOp i wi ri) (apiOp j wj rj) := by
  intro l hl
  cases wi <;> simp [apiOp] at hl
  subst hl
  cases wj <;> simp [apiOp, h]

open Interleave in
theorem readonly_on_shared_packet_independent (i j : Loc) (wj : Bool) (ri rj : Mem → Mem × Nat) :
    noInterf (apiOp i false ri) (apiOp j wj rj) := by
  intro l hl; simp [apiOp] at hl

open Interleave in
/-- **schedules**: two goroutines, one working on packet `i`, the other on packet `j ≠ i` (any mix of operations),
or both issuing read-only operations on a shared packet: under every interleaving each goroutine observes exactly
the results of running alone. -/
theorem concurrent_eq_sequential (xs ys : List AOp) (zs : List (Bool × AOp)) (h : Interleaving xs ys zs)
    (hxs : ∀ a ∈ xs, a.WF) (hys : ∀ b ∈ ys, b.WF) (hindep : ∀ a ∈ xs, ∀ b ∈ ys, noInterf b a) (m : Mem) :
    resultsOf true zs m = results xs m :=
  interleaving_results_left xs ys zs h hxs hys hindep m

/-- non-vacuity: an XR packet whose Marshal changes its state, and a history that ends in the same results -/
example : (step (.xr { sender := 1, blocks := [{ kind := 4, vals := [5] }] }) .marshal).1
    ≠ (.xr { sender := 1, blocks := [{ kind := 4, vals := [5] }] } : Packet) := by decide

end Rtcp.C18

namespace Rtcp.C18
open Rtcp

/-- **receiver independence of Unmarshal, regenerated**: in the current source every `append` to a field of the
receiver inside an `Unmarshal` method is dominated by a reset of that field (SSA analysis in tools/extract/resets.go;
`Gen/Resets.lean` is rewritten from /repo on every run). Together with the `reuse.K` correspondence (decode A then B
into one receiver = the model's decode of B alone) this ties the model's receiver-free decoders to the code. -/
theorem unmarshal_resets_receiver : ∀ r ∈ Gen.resetRows, r.reset = true := by decide

/-- the analysis saw the decoders it is meant to see (13 accumulating fields on the pinned tree) -/
theorem resets_nonvacuous : 13 ≤ Gen.resetRows.length ∧
    (Gen.resetRows.map (·.fn)).contains "(*TransportLayerNack).Unmarshal" = true := by decide

end Rtcp.C18

namespace Rtcp.C18
open Rtcp

/-- **no stale fields, regenerated**: in the current source every field an `Unmarshal` method assigns at all is
assigned on every path that returns success (must-write dataflow over the SSA, tools/extract/resets.go →
`Gen/MustWrite.lean`), so the decoded value never keeps content of an earlier use of the receiver. One unexported
helper is exempt and listed: `(*CCFeedbackReportBlock).unmarshal` returns early for `num_reports = 0` without
clearing `MetricBlocks`; its only caller hands it a fresh variable per block (a latent hazard, not reachable through
the API: two seeded changes that hoist that variable are caught by the correspondence). -/
theorem unmarshal_assigns_on_all_success_paths :
    ∀ r ∈ Gen.mustWriteRows, r.always = true ∨
      (r.fn = "(*CCFeedbackReportBlock).unmarshal" ∧ r.field = "MetricBlocks") := by decide

theorem mustWrite_nonvacuous : 70 ≤ Gen.mustWriteRows.length ∧
    (Gen.mustWriteRows.filter (fun r => r.always = false)).length = 1 := by decide

end Rtcp.C18
