import Rtcp.Lemmas.Safe6
namespace Rtcp.C18
end Rtcp.C18
