/-
  C03b — the wire-layout property at the LIST level: the package-level `rtcp.Marshal([]Packet)` (`uenc`) and
  `CompoundPacket.Marshal` (`cenc`).

  * `specBytes p`     : the octets the governing specification prescribes for the packet value `p`, defined exactly on
                        the domain of that kind's wire theorem (`C03.*_wire`); `none` outside it.
                          SR/RR/SDES/BYE/APP/NACK/RRR/PLI/FIR : `v.WF`                      → RFC 3550 / 4585 / 5104 / 6051 layout
                          REMB                                : `v.WF`                      → draft-alvestrand-rmcat-remb layout
                          TWCC                                : `v.WF`                      → draft-holmer-rmcat-tcc layout
                          XR                                  : `Spec.xrWFb v`              → RFC 3611 layout
                          CCFB                                : `v.WF` and no block carries a metric block → RFC 8888 layout
                              (`Spec.ccfbRFC`; the domain on which the library agrees with the RFC, `C03.ccfb_wire_of_empty_blocks`;
                              outside it the library deviates in num_reports: known finding ccfb-num-reports) — `none` otherwise
                          SLI                                 : `none` (the library emits PT 205 where RFC 4585 prescribes 206:
                              known finding sli-packet-type, `C03.KF_sli_packet_type`)
                          RawPacket                           : its own octets
  * `specBytesLib p`  : the same, except that CCFB is rendered in the library's num_reports convention (`Spec.ccfbLib`,
                        `C03.ccfb_wire_partial`) for every `v.WF` value. Every other kind as `specBytes`.
  * `packet_wire`     : `specBytes p = some b → p.enc = .ok b`, one statement over all kinds.
  * `list_wire`       : `ps.mapM specBytes = some bs → uenc ps = .ok bs.flatten`.
  * `compound_wire`   : the same for `CompoundPacket.Marshal`, given `Validate` passes.
  * `list_all_or_nothing`, `list_is_concat` : `uenc ps = .ok b` only if every member marshals, and `b` is exactly the
                        concatenation of the members' encodings in order (nothing dropped, nothing added; serves C08 too).
  * `list_wire_of`    : the generic list lemma behind `list_wire` (any per-packet oracle sound for `Packet.enc`).
-/
import Rtcp.Proofs.C03
import Rtcp.Proofs.Remb
import Rtcp.Proofs.Twcc
import Rtcp.Proofs.XRWire
import Rtcp.Proofs.Ccfb
import Rtcp.Spec.Select
import Rtcp.Model.Datagram
namespace Rtcp.C03
open Rtcp Gen Out Spec
set_option linter.unusedSimpArgs false
set_option linter.unusedVariables false

/-! ## the per-packet specification oracle -/

/-- the CCFB values on which the library's num_reports convention and RFC 8888 coincide: no block carries a metric block -/
def ccfbAgrees (v : Ccfb) : Bool := v.blocks.all fun b => b.metrics.isEmpty

theorem ccfbAgrees_sound (v : Ccfb) (h : ccfbAgrees v = true) : ∀ b ∈ v.blocks, b.metrics = [] := by
  intro b hb
  have := (List.all_eq_true.mp h) b hb
  simpa using this

/-- the octets prescribed by the governing specification, on the domain of the kind's wire theorem -/
def specBytes : Packet → Option Bytes
  | .sr v => if v.WF then some (render (Spec.sr v)) else none
  | .rr v => if v.WF then some (render (Spec.rr v)) else none
  | .sdes v => if v.WF then some (render (Spec.sdes v)) else none
  | .bye v => if v.WF then some (render (Spec.bye v)) else none
  | .app v => if v.WF then some (render (Spec.app v)) else none
  | .nack v => if v.WF then some (render (Spec.nack v)) else none
  | .rrr v => if v.WF then some (render (Spec.rrr v)) else none
  | .twcc v => if v.WF then some (render (Spec.twcc v)) else none
  | .ccfb v => if v.WF ∧ ccfbAgrees v = true then some (render (Spec.ccfbRFC v)) else none
  | .pli v => if v.WF then some (render (Spec.pli v)) else none
  | .sli _ => none
  | .remb v => if v.WF then some (render (Spec.remb v)) else none
  | .fir v => if v.WF then some (render (Spec.fir v)) else none
  | .xr v => if Spec.xrWFb v = true then some (render (Spec.xr v)) else none
  | .raw b => some b

/-- as `specBytes`, with CCFB in the library's num_reports convention (`Spec.ccfbLib`) on all of `Ccfb.WF` -/
def specBytesLib : Packet → Option Bytes
  | .ccfb v => if v.WF then some (render (Spec.ccfbLib v)) else none
  | p => specBytes p

/-! ## `Packet.enc` / `Packet.encP` -/

theorem enc_of_encP {p p' : Packet} {b : Bytes} (h : p.encP = .ok (b, p')) : p.enc = .ok b := by
  unfold Packet.enc
  rw [h]
  rfl

theorem encP_of_enc {p : Packet} {b : Bytes} (h : p.enc = .ok b) : ∃ p', p.encP = .ok (b, p') := by
  unfold Packet.enc at h
  obtain ⟨⟨b', p'⟩, hp, hb⟩ := Out.bind_eq_ok.mp h
  simp only [pure_eq, Out.ok.injEq] at hb
  exact ⟨p', by rw [hp, hb]⟩

theorem enc_iff_encP (p : Packet) (b : Bytes) : p.enc = .ok b ↔ ∃ p', p.encP = .ok (b, p') :=
  ⟨encP_of_enc, fun ⟨_, h⟩ => enc_of_encP h⟩

/-- for the kinds whose Marshal leaves the value alone: `Packet.enc` is the kind's encoder -/
theorem enc_of_plain {p : Packet} {o : Out Bytes} {b : Bytes}
    (hp : p.encP = (do let x ← o; pure (x, p))) (ho : o = .ok b) : p.enc = .ok b := by
  apply enc_of_encP (p' := p)
  rw [hp, ho]
  rfl

/-! ## one packet -/

/-- **C03, all kinds in one statement**: wherever the specification oracle is defined, Marshal of the single packet
emits exactly those octets -/
theorem packet_wire (p : Packet) (b : Bytes) (h : specBytes p = some b) : p.enc = .ok b := by
  cases p with
  | sr v =>
    simp only [specBytes] at h
    split at h
    · rename_i hw; cases h; exact enc_of_plain rfl (sr_wire v hw)
    · cases h
  | rr v =>
    simp only [specBytes] at h
    split at h
    · rename_i hw; cases h; exact enc_of_plain rfl (rr_wire v hw)
    · cases h
  | sdes v =>
    simp only [specBytes] at h
    split at h
    · rename_i hw; cases h; exact enc_of_plain rfl (sdes_wire v hw)
    · cases h
  | bye v =>
    simp only [specBytes] at h
    split at h
    · rename_i hw; cases h; exact enc_of_plain rfl (bye_wire v hw)
    · cases h
  | app v =>
    simp only [specBytes] at h
    split at h
    · rename_i hw; cases h; exact enc_of_plain rfl (app_wire v hw)
    · cases h
  | nack v =>
    simp only [specBytes] at h
    split at h
    · rename_i hw; cases h; exact enc_of_plain rfl (nack_wire v hw)
    · cases h
  | rrr v =>
    simp only [specBytes] at h
    split at h
    · rename_i hw; cases h; exact enc_of_plain rfl (rrr_wire v hw)
    · cases h
  | twcc v =>
    simp only [specBytes] at h
    split at h
    · rename_i hw; cases h; exact enc_of_plain rfl (twcc_wire v hw)
    · cases h
  | ccfb v =>
    simp only [specBytes] at h
    split at h
    · rename_i hw; cases h
      exact enc_of_plain rfl (ccfb_wire_of_empty_blocks v hw.1 (ccfbAgrees_sound v hw.2))
    · cases h
  | pli v =>
    simp only [specBytes] at h
    split at h
    · rename_i hw; cases h; exact enc_of_plain rfl (pli_wire v hw)
    · cases h
  | sli v => simp [specBytes] at h
  | remb v =>
    simp only [specBytes] at h
    split at h
    · rename_i hw; cases h; exact enc_of_plain rfl (remb_wire v hw)
    · cases h
  | fir v =>
    simp only [specBytes] at h
    split at h
    · rename_i hw; cases h; exact enc_of_plain rfl (fir_wire v hw)
    · cases h
  | xr v =>
    simp only [specBytes] at h
    split at h
    · rename_i hw; cases h
      obtain ⟨hs, hb, hfit⟩ := Spec.xrWFb_sound v hw
      apply enc_of_encP (p' := .xr v.marshalled)
      show (do let (b, v') ← v.enc; pure (b, Packet.xr v')) = _
      rw [xr_wire v hs hb hfit]
      rfl
    · cases h
  | raw r =>
    simp only [specBytes, Option.some.injEq] at h
    cases h
    exact enc_of_encP (p' := .raw b) rfl

/-- the same with CCFB in the library's convention (`C03.ccfb_wire_partial`) -/
theorem packet_wire_lib (p : Packet) (b : Bytes) (h : specBytesLib p = some b) : p.enc = .ok b := by
  cases p with
  | ccfb v =>
    simp only [specBytesLib] at h
    split at h
    · rename_i hw; cases h; exact enc_of_plain rfl (ccfb_wire_partial v hw)
    · cases h
  | _ => exact packet_wire _ b h

/-! ## lists: `rtcp.Marshal` -/

/-- the pointwise lifting of a relation to lists of equal length (the usual `List.Forall₂`, which core Lean lacks) -/
inductive Forall₂ {α β : Type} (R : α → β → Prop) : List α → List β → Prop
  | nil : Forall₂ R [] []
  | cons {a b l r} : R a b → Forall₂ R l r → Forall₂ R (a :: l) (b :: r)

theorem Forall₂.length_eq {α β : Type} {R : α → β → Prop} {l : List α} {r : List β} (h : Forall₂ R l r) :
    l.length = r.length := by
  induction h with
  | nil => rfl
  | cons _ _ ih => simp [ih]

/-- `Forall₂` says what it should: same length, and related position by position -/
theorem forall₂_iff {α β : Type} (R : α → β → Prop) (l : List α) (r : List β) :
    Forall₂ R l r ↔ l.length = r.length ∧ ∀ x ∈ l.zip r, R x.1 x.2 := by
  constructor
  · intro h
    refine ⟨h.length_eq, ?_⟩
    induction h with
    | nil => intro x hx; simp at hx
    | @cons a b l r hab _ ih =>
      intro x hx
      rw [List.zip_cons_cons] at hx
      rcases List.mem_cons.mp hx with hx | hx
      · rw [hx]; exact hab
      · exact ih x hx
  · intro ⟨hl, hz⟩
    induction l generalizing r with
    | nil =>
      cases r with
      | nil => exact Forall₂.nil
      | cons b r => simp at hl
    | cons a l ih =>
      cases r with
      | nil => simp at hl
      | cons b r =>
        refine Forall₂.cons (hz (a, b) (by simp)) (ih r (by simpa using hl) ?_)
        intro x hx
        exact hz x (by rw [List.zip_cons_cons]; exact List.mem_cons_of_mem _ hx)

/-- `uencP` succeeds exactly with the concatenation of the members' encodings (converse direction below) -/
theorem uencP_of_forall₂ (ps : List Packet) (bs : List Bytes)
    (h : Forall₂ (fun p bp => p.enc = .ok bp) ps bs) : ∃ qs, uencP ps = .ok (bs.flatten, qs) := by
  induction h with
  | nil => exact ⟨[], rfl⟩
  | @cons p bp ps bs hp _ ih =>
    obtain ⟨qs, hq⟩ := ih
    obtain ⟨p', hp'⟩ := encP_of_enc hp
    refine ⟨p' :: qs, ?_⟩
    simp only [uencP]
    rw [hp', bind_ok]
    dsimp only
    rw [hq, bind_ok]
    simp [List.flatten_cons]

theorem uenc_of_forall₂ (ps : List Packet) (bs : List Bytes)
    (h : Forall₂ (fun p bp => p.enc = .ok bp) ps bs) : uenc ps = .ok bs.flatten := by
  obtain ⟨qs, hq⟩ := uencP_of_forall₂ ps bs h
  unfold uenc
  rw [hq]
  rfl

theorem forall₂_of_uencP (ps : List Packet) (b : Bytes) (qs : List Packet) (h : uencP ps = .ok (b, qs)) :
    ∃ bs, Forall₂ (fun p bp => p.enc = .ok bp) ps bs ∧ b = bs.flatten := by
  induction ps generalizing b qs with
  | nil =>
    simp only [uencP, Out.ok.injEq, Prod.mk.injEq] at h
    exact ⟨[], Forall₂.nil, by rw [← h.1]; rfl⟩
  | cons p ps ih =>
    simp only [uencP] at h
    obtain ⟨⟨a, p'⟩, hp, h⟩ := Out.bind_eq_ok.mp h
    obtain ⟨⟨r, ps'⟩, hr, h⟩ := Out.bind_eq_ok.mp h
    simp only [pure_eq, Out.ok.injEq, Prod.mk.injEq] at h
    obtain ⟨bs, hbs, hr'⟩ := ih r ps' hr
    refine ⟨a :: bs, Forall₂.cons (enc_of_encP hp) hbs, ?_⟩
    rw [← h.1, hr', List.flatten_cons]

/-- `mapM` in `Option` as a pointwise relation -/
theorem forall₂_of_mapM {α β} (f : α → Option β) (l : List α) (r : List β) (h : l.mapM f = some r) :
    Forall₂ (fun a b => f a = some b) l r := by
  induction l generalizing r with
  | nil =>
    simp only [List.mapM_nil, Option.pure_def, Option.some.injEq] at h
    rw [← h]; exact Forall₂.nil
  | cons a l ih =>
    rw [List.mapM_cons] at h
    cases hfa : f a with
    | none => rw [hfa] at h; simp at h
    | some b =>
      rw [hfa] at h
      cases hl : l.mapM f with
      | none => rw [hl] at h; simp at h
      | some r' =>
        rw [hl] at h
        simp only [Option.pure_def, Option.bind_eq_bind, Option.bind_some, Option.some.injEq] at h
        rw [← h]
        exact Forall₂.cons hfa (ih r' hl)

theorem mapM_of_forall₂ {α β} (f : α → Option β) (l : List α) (r : List β)
    (h : Forall₂ (fun a b => f a = some b) l r) : l.mapM f = some r := by
  induction h with
  | nil => rfl
  | @cons a b l r hab _ ih =>
    rw [List.mapM_cons, hab, ih]
    rfl

/-- the generic list lemma: any per-packet oracle that is sound for `Packet.enc` is sound for `rtcp.Marshal` -/
theorem list_wire_of (f : Packet → Option Bytes) (hf : ∀ p b, f p = some b → p.enc = .ok b)
    (ps : List Packet) (bs : List Bytes) (h : ps.mapM f = some bs) : uenc ps = .ok bs.flatten := by
  apply uenc_of_forall₂
  have h2 := forall₂_of_mapM f ps bs h
  clear h
  induction h2 with
  | nil => exact Forall₂.nil
  | cons hab _ ih => exact Forall₂.cons (hf _ _ hab) ih

/-- **C03 for `rtcp.Marshal([]Packet)`**: if every member lies in the domain of its kind's wire theorem, the datagram is
bit for bit the concatenation, in order, of the encodings the specifications prescribe for the members -/
theorem list_wire (ps : List Packet) (bs : List Bytes) (h : ps.mapM specBytes = some bs) : uenc ps = .ok bs.flatten :=
  list_wire_of specBytes packet_wire ps bs h

/-- the same with CCFB members in the library's num_reports convention -/
theorem list_wire_lib (ps : List Packet) (bs : List Bytes) (h : ps.mapM specBytesLib = some bs) :
    uenc ps = .ok bs.flatten :=
  list_wire_of specBytesLib packet_wire_lib ps bs h

/-- **C03 for `CompoundPacket.Marshal`**: a compound packet that passes `Validate` and whose members lie in the domains
of their wire theorems is marshalled to the concatenation of the prescribed encodings -/
theorem compound_wire (ps : List Packet) (bs : List Bytes) (hv : cval ps = .ok ())
    (h : ps.mapM specBytes = some bs) : cenc ps = .ok bs.flatten := by
  unfold cenc
  rw [hv, bind_ok]
  exact list_wire ps bs h

theorem compound_wire_lib (ps : List Packet) (bs : List Bytes) (hv : cval ps = .ok ())
    (h : ps.mapM specBytesLib = some bs) : cenc ps = .ok bs.flatten := by
  unfold cenc
  rw [hv, bind_ok]
  exact list_wire_lib ps bs h

/-- `CompoundPacket.Marshal` returns octets only for lists that pass `Validate` -/
theorem compound_ok_valid (ps : List Packet) (b : Bytes) (h : cenc ps = .ok b) : cval ps = .ok () ∧ uenc ps = .ok b := by
  unfold cenc at h
  obtain ⟨u, hu, hb⟩ := Out.bind_eq_ok.mp h
  exact ⟨hu, hb⟩

/-! ## all or nothing; the output is the concatenation -/

/-- **the datagram is exactly the concatenation of the members' encodings**: nothing dropped, nothing added, order kept -/
theorem list_is_concat (ps : List Packet) (b : Bytes) (h : uenc ps = .ok b) :
    ∃ bs, Forall₂ (fun p bp => p.enc = .ok bp) ps bs ∧ b = bs.flatten := by
  unfold uenc at h
  obtain ⟨⟨b', qs⟩, hq, hb⟩ := Out.bind_eq_ok.mp h
  simp only [pure_eq, Out.ok.injEq] at hb
  rw [← hb]
  exact forall₂_of_uencP ps b' qs hq

/-- **all or nothing**: a list is marshalled only if every member is -/
theorem list_all_or_nothing (ps : List Packet) (b : Bytes) (h : uenc ps = .ok b) : ∀ p ∈ ps, ∃ bp, p.enc = .ok bp := by
  obtain ⟨bs, hbs, hb⟩ := list_is_concat ps b h
  clear h hb
  induction hbs with
  | nil => intro p hp; cases hp
  | @cons q bq qs bs' hq _ ih =>
    intro p hp
    rcases List.mem_cons.mp hp with hp | hp
    · rw [hp]; exact ⟨bq, hq⟩
    · exact ih p hp

/-- the characterisation in one statement: `rtcp.Marshal` returns `b` iff `b` is the concatenation of member encodings -/
theorem uenc_ok_iff (ps : List Packet) (b : Bytes) :
    uenc ps = .ok b ↔ ∃ bs, Forall₂ (fun p bp => p.enc = .ok bp) ps bs ∧ b = bs.flatten :=
  ⟨list_is_concat ps b, fun ⟨bs, hbs, hb⟩ => by rw [hb]; exact uenc_of_forall₂ ps bs hbs⟩

/-- consequence for sizes (C08): no octet is lost or invented at the list level -/
theorem list_length (ps : List Packet) (b : Bytes) (h : uenc ps = .ok b) :
    ∃ bs, Forall₂ (fun p bp => p.enc = .ok bp) ps bs ∧ b.length = (bs.map List.length).sum := by
  obtain ⟨bs, hbs, hb⟩ := list_is_concat ps b h
  exact ⟨bs, hbs, by rw [hb, List.length_flatten]⟩

/-- conversely, when the datagram is produced and the members are in the specification's domain, the datagram is the
specification's (no hypothesis-free claim is possible: SLI and most CCFB values are marshalled but not to the RFC layout) -/
theorem list_wire_unique (ps : List Packet) (bs : List Bytes) (b : Bytes) (h : ps.mapM specBytes = some bs)
    (hb : uenc ps = .ok b) : b = bs.flatten := by
  have := list_wire ps bs h
  rw [hb] at this
  exact Out.ok.inj this

/-! ## non-vacuity -/

/-- a compound packet of three kinds: RR with one reception report, SDES with a CNAME, PLI -/
def exList : List Packet :=
  [.rr ⟨0x01020304, [⟨0x0A0B0C0D, 5, 6, 7, 8, 9, 10⟩], []⟩,
   .sdes ⟨[⟨0x01020304, [⟨1, [97, 64, 98]⟩]⟩]⟩,
   .pli ⟨0x01020304, 0x0A0B0C0D⟩]

/-- the hypotheses of `list_wire` and `compound_wire` are satisfiable, and this is what they give, octet by octet -/
example : exList.mapM specBytes = some
    [[129, 201, 0, 7, 1, 2, 3, 4, 10, 11, 12, 13, 5, 0, 0, 6, 0, 0, 0, 7, 0, 0, 0, 8, 0, 0, 0, 9, 0, 0, 0, 10],
     [129, 202, 0, 3, 1, 2, 3, 4, 1, 3, 97, 64, 98, 0, 0, 0],
     [129, 206, 0, 2, 1, 2, 3, 4, 10, 11, 12, 13]] := by decide

example : cval exList = .ok () := by decide

example : ∃ bs, exList.mapM specBytes = some bs ∧ cenc exList = .ok bs.flatten ∧ uenc exList = .ok bs.flatten := by
  cases h : exList.mapM specBytes with
  | none => exact absurd h (by decide)
  | some bs => exact ⟨bs, rfl, compound_wire exList bs (by decide) h, list_wire exList bs h⟩

/-- a list with the four kinds whose wire theorems live outside Proofs/C03.lean (REMB, TWCC, XR, CCFB) and a raw packet -/
def exList2 : List Packet :=
  [.remb ⟨1, 0x49742400, [2, 3]⟩,
   .twcc C02.twccExample,
   .xr XRW.exXR,
   .ccfb ⟨1, [⟨2, 3, []⟩, ⟨5, 65535, []⟩], 4⟩,
   .raw [128, 192, 0, 0]]

example : (exList2.mapM specBytes).isSome = true := by decide

end Rtcp.C03
