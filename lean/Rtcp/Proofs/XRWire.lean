/-
  Extended reports (RFC 3611) — framing (C05), wire layout (C03) and decoding of the specified layout (C04).
  `Spec.xr` / `Spec.xrBlock` (Spec/XR.lean) are the RFC 3611 layouts written from the RFC diagrams in the same
  MSB-first bit-field vocabulary as the other packet types; `C03.xr_wire` says `ExtendedReport.Marshal` emits exactly
  their rendering, for all seven defined block types and opaque blocks. The bridge to the reflective codec is
  Lemmas/XRWire.lean (`block_render`), over the layouts pinned by `C15.layouts_rfc`.
  Hypotheses are those of `C15.xr_roundtrip`: 32-bit sender, every block `C15.BlockWF` (fields in range, omitted
  fields representable in the type-specific octet, word aligned — see KF-XR-ALIGN), size within the 16-bit length field.
-/
import Rtcp.Lemmas.XRWire
namespace Rtcp.XRW
open Rtcp Gen Out Spec C15
set_option linter.unusedSimpArgs false
set_option linter.unusedVariables false

theorem wireSize_marshalled (x : XR) : x.marshalled.wireSize = x.wireSize := by
  simp only [XR.marshalled, XR.wireSize, List.map_map]
  congr 2

theorem sum_aligned (bs : List XRBlock) (h : ∀ b ∈ bs, BlockWF b) : (bs.map XRBlock.wireSize).sum % 4 = 0 := by
  induction bs with
  | nil => rfl
  | cons b bs ih =>
    have h1 := (h b (by simp)).aligned
    have h2 := ih (fun y hy => h y (by simp [hy]))
    simp; omega

/-- what `ExtendedReport.Marshal` returns, explicitly -/
theorem enc_ok (x : XR) (h : ∀ b ∈ x.blocks, BlockWF b) :
    x.enc = .ok (x.header.bytes ++ be32 x.sender ++ blocksBytes x.blocks, x.marshalled) := by
  unfold XR.enc
  dsimp only
  have hws := wireSize_marshalled x
  unfold XR.marshalled at hws
  rw [hws, Header.enc_ok _ (by simp), bind_ok, encXRBlocks_ok x.blocks h, bind_ok]
  rfl

/-! ### non-vacuity: a concrete report meeting the hypotheses of the theorems below -/

/-- non-vacuity: a Loss RLE block (T = 5) with two chunks, a statistics summary block (L, J set, ToH = 2) and an
opaque block of type 200 with 8 octets -/
def exLoss : XRBlock := { kind := 1, omits := [5], vals := [0xAABBCCDD, 10, 20], elems := [[0x8001], [0x4002]] }
def exStats : XRBlock := { kind := 6, omits := [1, 0, 1, 2], vals := [7, 1, 2, 3, 4, 5, 6, 7, 8, 9, 10, 11, 12] }
def exOpaque : XRBlock := { kind := 0, bt := 200, ts := 7, elems := [[1], [2], [3], [4], [5], [6], [7], [8]] }
def exXR : XR := { sender := 0x01020304, blocks := [exLoss, exStats, exOpaque] }

theorem exLoss_wf : BlockWF exLoss :=
  ⟨by decide, by simp [exLoss, itemsOK, layoutOf, layout1, XRBlock.scalars, XRBlock.setup, XRBlock.setupBt, XRBlock.setupTs,
      XRBlock.wireSize, sizeItems, elemSize, widthOK, fits, elemOK], ⟨5, rfl, by decide⟩, by decide, by decide, by decide⟩
theorem exStats_wf : BlockWF exStats :=
  ⟨by decide, by simp [exStats, itemsOK, layoutOf, layout6, XRBlock.scalars, XRBlock.setup, XRBlock.setupBt, XRBlock.setupTs,
      XRBlock.wireSize, sizeItems, widthOK, fits], ⟨1, 0, 1, 2, rfl, by decide, by decide, by decide, by decide⟩,
    by decide, by decide, by decide⟩
theorem exOpaque_wf : BlockWF exOpaque :=
  ⟨by decide, by simp [exOpaque, itemsOK, layoutOf, layout0, XRBlock.scalars, XRBlock.setup, XRBlock.setupBt, XRBlock.setupTs,
      XRBlock.wireSize, sizeItems, elemSize, widthOK, fits, elemOK], by simp [omitsOK, exOpaque], by decide, by decide, by decide⟩

theorem exXR_hyps : exXR.sender < 4294967296 ∧ (∀ b ∈ exXR.blocks, BlockWF b) ∧ exXR.marshalSize ≤ 262144 := by
  refine ⟨by decide, ?_, by decide⟩
  intro b hb
  simp only [exXR, List.mem_cons, List.not_mem_nil, or_false] at hb
  rcases hb with rfl | rfl | rfl
  · exact exLoss_wf
  · exact exStats_wf
  · exact exOpaque_wf


end Rtcp.XRW

namespace Rtcp.C05
open Rtcp Gen Out Spec C15 XRW
set_option linter.unusedSimpArgs false
set_option linter.unusedVariables false

/-- **C05 for ExtendedReport**: Marshal succeeds; the output length is MarshalSize(), a multiple of four; the first
four octets are a version-2 header with packet type 207, count 0, no padding, and length field = words − 1.
(`x.header` is the header Marshal builds; the Go type has no `Header()` accessor.) -/
theorem xr_framed (x : XR) (hs : x.sender < 4294967296) (h : ∀ b ∈ x.blocks, BlockWF b) (hfit : x.marshalSize ≤ 262144) :
    ∃ f, x.enc = .ok (f, x.marshalled) ∧ f.length = x.marshalSize ∧ f.length % 4 = 0 ∧ Header.dec f = .ok x.header ∧
      x.header.length = f.length / 4 - 1 ∧ x.header.type = 207 ∧ x.header.count = 0 ∧ x.header.padding = false := by
  have hal := sum_aligned x.blocks h
  have hwsz : x.wireSize = 4 + (x.blocks.map XRBlock.wireSize).sum := rfl
  have hms : x.marshalSize = 4 + x.wireSize := rfl
  have hlen : (x.header.bytes ++ be32 x.sender ++ blocksBytes x.blocks).length = x.marshalSize := by
    simp [blocksBytes_length x.blocks h, hms, hwsz]
  refine ⟨_, enc_ok x h, hlen, ?_, ?_, ?_, rfl, rfl, rfl⟩
  · rw [hlen]; omega
  · rw [List.append_assoc]
    exact Header.dec_bytes x.header _ (by simp [XR.header]) (by simp [XR.header]) (by show x.wireSize / 4 % 65536 < 65536; omega)
  · rw [hlen]; show x.wireSize / 4 % 65536 = _; omega

example : ∃ f, exXR.enc = .ok (f, exXR.marshalled) ∧ f.length = 76 ∧ Header.dec f = .ok { type := 207, length := 18 } := by
  obtain ⟨f, he, hl, _, hd, _⟩ := xr_framed exXR exXR_hyps.1 exXR_hyps.2.1 exXR_hyps.2.2
  exact ⟨f, he, hl, hd⟩

end Rtcp.C05

namespace Rtcp.C03
open Rtcp Gen Out Spec C15 XRW
set_option linter.unusedSimpArgs false
set_option linter.unusedVariables false

/-- **C03 for one XR report block**: the codec's output for a well-formed block is bit for bit the RFC 3611 layout
(§3 framing: BT, type-specific bits, block length in words − 1; §4.1–§4.7 contents; opaque contents for unknown types) -/
theorem xr_block_wire (b : XRBlock) (h : BlockWF b) :
    b.setup.enc = .ok (render (Spec.xrBlock b)) ∧ Spec.xrBlockOctets b = b.wireSize := by
  rw [block_render b h]
  exact ⟨(block_enc b h).1, blockOctets b h⟩

/-- **C03 for ExtendedReport**: Marshal emits exactly the RFC 3611 packet: V=2, P=0, reserved 0, PT=207, length;
SSRC; the report blocks in order, each in its RFC layout -/
theorem xr_wire (x : XR) (hs : x.sender < 4294967296) (h : ∀ b ∈ x.blocks, BlockWF b) (hfit : x.marshalSize ≤ 262144) :
    x.enc = .ok (render (Spec.xr x), x.marshalled) := by
  have hal := sum_aligned x.blocks h
  have hwsz : x.wireSize = 4 + (x.blocks.map XRBlock.wireSize).sum := rfl
  have hms : x.marshalSize = 4 + x.wireSize := rfl
  rw [enc_ok x h]
  congr 2
  unfold Spec.xr
  dsimp only
  rw [XRW.render_append, XRW.render_cons, XRW.render_cons, XRW.render_nil, blocks_render x.blocks h, blocksOctets x.blocks h,
    header_render false 0 207 _ (by decide) (by decide) (by omega),
    bits1_render 32 x.sender (by decide) (by simpa using hs), beBytes4]
  have hw : (8 + (x.blocks.map XRBlock.wireSize).sum) / 4 - 1 = x.wireSize / 4 % 65536 := by omega
  rw [hw]
  simp [XR.header]

example : exXR.enc = .ok (render (Spec.xr exXR), exXR.marshalled) := xr_wire exXR exXR_hyps.1 exXR_hyps.2.1 exXR_hyps.2.2

/-- the RFC 3611 rendering of the example, octet by octet -/
example : render (Spec.xr exXR) =
    [128, 207, 0, 18, 1, 2, 3, 4,
     1, 5, 0, 3, 0xAA, 0xBB, 0xCC, 0xDD, 0, 10, 0, 20, 0x80, 1, 0x40, 2,
     6, 0xB0, 0, 9, 0, 0, 0, 7, 0, 1, 0, 2, 0, 0, 0, 3, 0, 0, 0, 4, 0, 0, 0, 5, 0, 0, 0, 6, 0, 0, 0, 7, 0, 0, 0, 8, 9, 10, 11, 12,
     200, 7, 0, 2, 1, 2, 3, 4, 5, 6, 7, 8] := by decide

end Rtcp.C03

namespace Rtcp.C04
open Rtcp Gen Out Spec C15 XRW
set_option linter.unusedSimpArgs false
set_option linter.unusedVariables false

/-- **C04 for ExtendedReport**: Unmarshal of the RFC 3611 layout of a well-formed report gives the report back
(in its post-Marshal state: block type, type-specific octet and block length of every block filled in) -/
theorem xr_dec_spec (x : XR) (hs : x.sender < 4294967296) (h : ∀ b ∈ x.blocks, BlockWF b) (hfit : x.marshalSize ≤ 262144) :
    XR.dec (render (Spec.xr x)) = .ok x.marshalled := by
  have hms : x.marshalSize = 4 + x.wireSize := rfl
  obtain ⟨bytes, he, hd, _⟩ := xr_roundtrip x hs h (by omega)
  rw [C03.xr_wire x hs h hfit] at he
  injection he with he
  injection he with hb _
  rw [hb]
  exact hd

example : XR.dec (render (Spec.xr exXR)) = .ok exXR.marshalled := xr_dec_spec exXR exXR_hyps.1 exXR_hyps.2.1 exXR_hyps.2.2

end Rtcp.C04
