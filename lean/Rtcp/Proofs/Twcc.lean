/-
  TransportLayerCC (draft-holmer-rmcat-transport-wide-cc-extensions-01 §3.1), encode side — the TWCC parts of
  C16 (status vector chunk bijection), C05 (framing), C03 (bit-exact layout) and C02 (round trip).

  Domain: `Twcc.WF` (Spec/Twcc.lean). The header of a TransportLayerCC value is supplied by the caller and written
  verbatim, so the domain asks for a header consistent with the content (`Twcc.Consistent`: PT 205, FMT 15, length =
  words − 1, P bit set exactly when padding octets follow); the Go size arithmetic is 16-bit, so the unpadded size is
  at most 65532. The chunks must report on exactly `statusCount` packets (`chunksCover`), and the deltas must be the
  ones the chunks announce, in order. The decoder does not look at the padding at all, so no further condition is
  needed for the round trip.

  Quantisation: receive deltas are carried in 250 µs ticks. `twcc_roundtrip` is for deltas that are whole ticks
  (`RecvDelta.WF`); `twcc_roundtrip_quant` is the general form (`Twcc.WFq`): decoding yields `p.quant`, and re-marshalling
  `p.quant` gives the same octets.
-/
import Rtcp.Lemmas.TwccRT
import Rtcp.Proofs.C05

/-! ## C16 — status vector chunks -/
namespace Rtcp.C16
open Rtcp Gen Out
set_option linter.unusedSimpArgs false
set_option linter.unusedVariables false

/-- encode-then-decode is the identity on every well-formed status vector chunk
(2^14 one-bit vectors and 4^7 two-bit vectors) -/
theorem sv_enc_dec (ss : Nat) (syms : List Nat) (h : (TwccChunk.sv 1 ss syms).WF) :
    (TwccChunk.enc (.sv 1 ss syms) >>= svChunkDec) = .ok (.sv 1 ss syms) := by
  have hw := chunkWord_lt _ h
  have hge : ¬ chunkWord (.sv 1 ss syms) < 32768 := fun hlt => by
    obtain ⟨_, _, _, e⟩ := hw.2.mp hlt; cases e
  have hd := TwccChunk.dec_word _ h
  rw [getNBits_eq _ 0 1 (by omega) (by omega), if_neg (by simp; omega)] at hd
  rw [TwccChunk.enc_ok _ h, bind_ok, hd]

theorem be16_bytes (hi lo : Nat) (hh : hi < 256) (hl : lo < 256) : be16 (hi * 256 + lo) = [byte hi, byte lo] := by
  rw [be16_eq]
  have h1 : (hi * 256 + lo) / 256 = hi := by omega
  have h2 : (hi * 256 + lo) % 256 = lo := by omega
  rw [h1, h2]

/-- decode-then-encode is the identity on every 16-bit word whose top bit is 1 -/
theorem sv_dec_enc (hi lo : Nat) (hh : 128 ≤ hi) (hh2 : hi < 256) (hl : lo < 256) :
    (svChunkDec [byte hi, byte lo] >>= TwccChunk.enc) = .ok [byte hi, byte lo] := by
  by_cases h192 : hi < 192
  · rw [sv_dec_one hi lo hh h192 hl, bind_ok, sv_enc 1 0 _ (by omega) (by simp)]
    simp only [symSum]
    simp only [Nat.zero_add, Nat.reduceMul, Nat.reduceAdd, Nat.reduceSub, Nat.reducePow, Nat.add_zero, Nat.mod_mod]
    rw [← be16_bytes hi lo hh2 hl]
    exact congrArg (fun x => Out.ok (be16 x)) (by omega)
  · rw [sv_dec_two hi lo (by omega) hh2 hl, bind_ok, sv_enc 1 1 _ (by omega) (by simp)]
    simp only [symSum]
    simp only [Nat.zero_add, Nat.reduceMul, Nat.reduceAdd, Nat.reduceSub, Nat.reducePow, Nat.add_zero, Nat.mod_mod]
    rw [← be16_bytes hi lo hh2 hl]
    exact congrArg (fun x => Out.ok (be16 x)) (by omega)

/-- non-vacuity: a one-bit and a two-bit vector -/
example : (TwccChunk.sv 1 0 [1, 0, 1, 1, 0, 0, 0, 0, 0, 0, 0, 0, 0, 1]).WF := by decide
example : (TwccChunk.sv 1 1 [2, 1, 0, 3, 0, 0, 1]).WF := by decide

end Rtcp.C16

/-! ## C05 — framing -/
namespace Rtcp.C05
open Rtcp Gen Out
set_option linter.unusedSimpArgs false
set_option linter.unusedVariables false

/-- Marshal succeeds on every well-formed value; the output length is MarshalSize(), a multiple of four; the first
four octets are the supplied header, whose length field is the output length in words minus one; Len() agrees. -/
theorem twcc_framed (p : Twcc) (h : p.WF) :
    ∃ f, p.enc = .ok f ∧ f.length = p.marshalSize ∧ f.length % 4 = 0 ∧ Header.dec f = .ok p.header ∧
      p.header.length = f.length / 4 - 1 ∧ p.len = f.length := by
  have hq := h.1
  have hf := framed_facts (Twcc.framed p hq)
  have hl := Twcc.wire_length p hq
  have hs := Twcc.size_facts p hq
  refine ⟨p.wire, Twcc.enc_ok p hq, hl, hf.2.1, hf.1, hf.2.2.1, ?_⟩
  rw [hl]; unfold Twcc.len; omega

end Rtcp.C05

/-! ## C03 — bit-exact layout -/
namespace Rtcp.C03
open Rtcp Gen Out
set_option linter.unusedSimpArgs false
set_option linter.unusedVariables false

/-- Marshal emits exactly the octets the draft prescribes -/
theorem twcc_wire (p : Twcc) (h : p.WF) : p.enc = .ok (Spec.render (Spec.twcc p)) := by
  rw [twcc_render p h.1]; exact Twcc.enc_ok p h.1

end Rtcp.C03

/-! ## C02 — round trip -/
namespace Rtcp.C02
open Rtcp Gen Out
set_option linter.unusedSimpArgs false
set_option linter.unusedVariables false

theorem twcc_udec_wire (p : Twcc) (h : p.WFq) : udec p.wire = .ok [.twcc p.quant] := by
  have hfr := Twcc.framed p h
  have hs := Twcc.size_facts p h
  have hl := Twcc.wire_length p h
  obtain ⟨k, hk⟩ : ∃ k, p.wire.length = k + 1 := ⟨p.wire.length - 1, by omega⟩
  have hcons := unmarshalLoop_cons p.wire [] p.header hfr (k + 1)
  rw [List.append_nil, h.1.1, h.1.2.1] at hcons
  have hdk : decKind (dispatch 205 15) p.wire = .ok (.twcc p.quant) := by
    show (Packet.twcc <$> Twcc.dec p.wire) = _
    rw [Twcc.dec_wire p h]; rfl
  rw [hdk, bind_ok] at hcons
  have hnil : unmarshalLoop (k + 1) [] = .ok [] := by simp [unmarshalLoop]
  rw [hnil, bind_ok] at hcons
  unfold udec
  rw [hk, hcons, bind_ok]
  rfl

/-- **general form**: for every encodable value, decoding what Marshal emits — by the type's own decoder and by the
datagram decoder, which returns the same concrete type — yields the value with its deltas rounded toward zero to
250 µs ticks -/
theorem twcc_roundtrip_quant (p : Twcc) (h : p.WFq) :
    ∃ f, p.enc = .ok f ∧ Twcc.dec f = .ok p.quant ∧ udec f = .ok [.twcc p.quant] :=
  ⟨p.wire, Twcc.enc_ok p h, Twcc.dec_wire p h, twcc_udec_wire p h⟩

theorem quant_eq_of_WF (p : Twcc) (h : p.WF) : p.quant = p := by
  obtain ⟨hdr, s, m, b, c, r, f, cs, ds⟩ := p
  simp only [Twcc.quant, Twcc.mk.injEq, true_and]
  have hd : ∀ d ∈ ds, d.WF := h.2
  clear h
  induction ds with
  | nil => rfl
  | cons d ds ih =>
    rw [List.map_cons, quant_of_WF d (hd d (by simp)), ih (fun x hx => hd x (by simp [hx]))]

/-- **round trip** for well-formed values (deltas whole multiples of 250 µs): equality, through both decoders -/
theorem twcc_roundtrip (p : Twcc) (h : p.WF) :
    ∃ f, p.enc = .ok f ∧ Twcc.dec f = .ok p ∧ udec f = .ok [.twcc p] := by
  have := twcc_roundtrip_quant p h.1
  rw [quant_eq_of_WF p h] at this
  exact this

/-- **re-marshal**: the decoded packet is well-formed and Marshal emits the same octets for it -/
theorem twcc_rebytes (p : Twcc) (h : p.WFq) : p.quant.WF ∧ p.quant.enc = p.enc ∧ p.quant.quant = p.quant := by
  have hq := Twcc.quant_WF p h
  refine ⟨hq, ?_, quant_eq_of_WF _ hq⟩
  rw [Twcc.enc_ok _ hq.1, Twcc.enc_ok _ h, Twcc.quant_wire]

/-- non-vacuity: a run-length chunk, a two-bit vector chunk whose last three symbols are unused, small and large
(negative) deltas, three octets of padding with the P bit set -/
def twccExample : Twcc :=
  { header := ⟨true, 15, 205, 7⟩
    sender := 1
    media := 2
    baseSeq := 3
    statusCount := 6
    refTime := 1193046
    fbCount := 7
    chunks := [.rl 0 1 2, .sv 1 1 [2, 1, 0, 3, 0, 0, 0]]
    deltas := [⟨1, 250⟩, ⟨1, 63750⟩, ⟨2, -500⟩, ⟨1, 0⟩] }

example : twccExample.WF := by decide
example : twccExample.enc = .ok [175, 205, 0, 7, 0, 0, 0, 1, 0, 0, 0, 2, 0, 3, 0, 6, 18, 52, 86, 7,
    32, 2, 228, 192, 1, 255, 255, 254, 0, 0, 0, 3] := by decide
/-- a value that is encodable but not quantised: 300 µs is carried as one tick -/
example : ({ twccExample with deltas := [⟨1, 300⟩, ⟨1, 63999⟩, ⟨2, -749⟩, ⟨1, 249⟩] } : Twcc).WFq := by decide
/-- without padding: one-bit vector, P bit clear -/
def twccExample2 : Twcc :=
  { header := ⟨false, 15, 205, 5⟩
    statusCount := 14
    chunks := [.sv 1 0 [1, 0, 0, 0, 0, 0, 0, 0, 0, 0, 0, 0, 0, 1]]
    deltas := [⟨1, 250⟩, ⟨1, 63750⟩] }
example : twccExample2.WF := by decide

end Rtcp.C02
