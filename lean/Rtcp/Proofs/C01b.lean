/-
  C01, memory half (as far as a value-level model carries it): NO INPUT MAKES A DECODER BUILD A VALUE MUCH LARGER THAN ITSELF.

  `X.cells` (Lemmas/Size.lean) counts the scalar fields of a decoded value plus the total length of every list and octet
  string inside it, recursively:
    Header 4 · ReceptionReport 7 · SR 5 + 7/report + |ext| · RR 1 + 7/report + |ext| · SDES Σ chunks (1 + Σ items (1 + |text|))
    BYE |sources| + |reason| · APP 2 + |name| + |data| · NACK 2 + 2/pair · RRR 2 · PLI 2 · SLI 2 + 3/entry · FIR 2 + 2/entry
    REMB 2 + 1/ssrc · TWCC 4 + 6 + Σ chunks (run length 3 | status vector 2 + |symbols|) + 2/delta
    CCFB 2 + Σ blocks (2 + 3/metric) · XR 1 + Σ blocks (4 + |omits| + |vals| + Σ |element|) · RAW |bytes|.

  Statements, with all constants explicit (`c₁ * |b| + c₀`):
    * every packet type's own decoder  `K.dec b = .ok v → v.cells ≤ c₁·|b| + 0`, c₁ = 1 except CCFB (2) and TWCC (8)
      — `sr_cells … raw_cells`, uniformly `decKind_cells` (c₁ = 8) and `decKind_cells_tight` (c₁ = `factor k`);
    * the datagram decoder `udec` and `(*CompoundPacket).Unmarshal` (`cdec`): Σ cells ≤ 8·|b| + 0 and #packets · 4 ≤ |b|
      (the frames partition the datagram);
    * the exported sub-structure decoders (Header, ReceptionReport, SDES chunk and item, TWCC run-length chunk,
      status-vector chunk, RecvDelta) and the two internal RFC 8888 ones (block, metric);
    * all 23 entry points of `C01.Entry` at once: `cells_bounded`;
    * the receivers that are filled incrementally, WHATEVER the status (what a rejected input leaves allocated):
      SDES ≤ |b|, CCFB ≤ 2·|b| + 2, XR ≤ |b| + 1, TWCC ≤ 8·|b| + 131108 (a rejected TWCC packet may have announced up to
      65549 deltas of two cells before the delta loop finds their octets missing: `twcc_alloc_bound`; an ACCEPTED one
      has found one octet per delta, hence the linear bound).
  The TWCC factor is needed: `twcc_factor_needed` exhibits an accepted 64-octet packet of 362 cells (> 5·64).

  What this does not say: heap bytes. A cell is a Go scalar of at most 8 octets (16 for a `RecvDelta`'s two words, the
  interface header of a chunk is not counted); slice growth by `append` at most doubles. Real heap use is measured at
  run time by the Go harness.
-/
import Rtcp.Proofs.C01
import Rtcp.Lemmas.Size
namespace Rtcp.C01
open Rtcp

/-! ### each packet type's own decoder -/

theorem sr_cells (b : Bytes) (v : SenderReport) (h : SenderReport.dec b = .ok v) : v.cells ≤ 1 * b.length + 0 := by
  have := SenderReport.dec_cells h; omega
theorem rr_cells (b : Bytes) (v : ReceiverReport) (h : ReceiverReport.dec b = .ok v) : v.cells ≤ 1 * b.length + 0 := by
  have := ReceiverReport.dec_cells h; omega
theorem sdes_cells (b : Bytes) (v : SourceDescription) (h : SourceDescription.dec b = .ok v) : v.cells ≤ 1 * b.length + 0 := by
  have := SourceDescription.dec_cells h; omega
theorem bye_cells (b : Bytes) (v : Goodbye) (h : Goodbye.dec b = .ok v) : v.cells ≤ 1 * b.length + 0 := by
  have := Goodbye.dec_cells h; omega
theorem app_cells (b : Bytes) (v : ApplicationDefined) (h : ApplicationDefined.dec b = .ok v) : v.cells ≤ 1 * b.length + 0 := by
  have := ApplicationDefined.dec_cells h; omega
theorem nack_cells (b : Bytes) (v : TransportLayerNack) (h : TransportLayerNack.dec b = .ok v) : v.cells ≤ 1 * b.length + 0 := by
  have := TransportLayerNack.dec_cells h; omega
theorem rrr_cells (b : Bytes) (v : RapidResync) (h : RapidResync.dec b = .ok v) : v.cells ≤ 1 * b.length + 0 := by
  have := RapidResync.dec_cells h; omega
theorem pli_cells (b : Bytes) (v : PictureLossIndication) (h : PictureLossIndication.dec b = .ok v) : v.cells ≤ 1 * b.length + 0 := by
  have := PictureLossIndication.dec_cells h; omega
theorem sli_cells (b : Bytes) (v : SliceLossIndication) (h : SliceLossIndication.dec b = .ok v) : v.cells ≤ 1 * b.length + 0 := by
  have := SliceLossIndication.dec_cells h; omega
theorem fir_cells (b : Bytes) (v : FullIntraRequest) (h : FullIntraRequest.dec b = .ok v) : v.cells ≤ 1 * b.length + 0 := by
  have := FullIntraRequest.dec_cells h; omega
theorem remb_cells (b : Bytes) (v : Remb) (h : Remb.dec b = .ok v) : v.cells ≤ 1 * b.length + 0 := by
  have := Remb.dec_cells h; omega
/-- TWCC: 14 one-bit symbols (16 cells) per two-octet status vector chunk, two cells per one-octet delta -/
theorem twcc_cells (b : Bytes) (v : Twcc) (h : Twcc.dec b = .ok v) : v.cells ≤ 8 * b.length + 0 := by
  have := Twcc.dec_cells h; omega
/-- CCFB: three cells per two-octet metric block -/
theorem ccfb_cells (b : Bytes) (v : Ccfb) (h : Ccfb.dec b = .ok v) : v.cells ≤ 2 * b.length + 0 := by
  have := Ccfb.dec_cells h; omega
theorem xr_cells (b : Bytes) (v : XR) (h : XR.dec b = .ok v) : v.cells ≤ 1 * b.length + 0 := by
  have := XR.dec_cells h; omega
theorem raw_cells (b : Bytes) (v : Bytes) (h : rawDec b = .ok v) : (Packet.raw v).cells ≤ 1 * b.length + 0 := by
  have := rawDec_cells h; simp only [Packet.cells]; omega

/-- the type's own `Unmarshal`, by kind: **at most `8·|f|` cells** -/
theorem decKind_cells (k : Kind) (f : Bytes) (p : Packet) (h : decKind k f = .ok p) : p.cells ≤ 8 * f.length + 0 :=
  Rtcp.decKind_cells k f p h

/-- the factor per kind -/
def factor : Kind → Nat
  | .twcc => 8
  | .ccfb => 2
  | _ => 1

theorem decKind_cells_tight (k : Kind) (f : Bytes) (p : Packet) (h : decKind k f = .ok p) : p.cells ≤ factor k * f.length + 0 := by
  cases k <;> unfold decKind at h <;> obtain ⟨v, hv, rfl⟩ := Out.map_eq_ok.mp h <;> simp only [Packet.cells, factor]
  · exact sr_cells _ _ hv
  · exact rr_cells _ _ hv
  · exact sdes_cells _ _ hv
  · exact bye_cells _ _ hv
  · exact app_cells _ _ hv
  · exact nack_cells _ _ hv
  · exact rrr_cells _ _ hv
  · exact twcc_cells _ _ hv
  · exact ccfb_cells _ _ hv
  · exact pli_cells _ _ hv
  · exact sli_cells _ _ hv
  · exact remb_cells _ _ hv
  · exact fir_cells _ _ hv
  · exact xr_cells _ _ hv
  · exact raw_cells _ _ hv

/-! ### the datagram entry points -/

/-- **`rtcp.Unmarshal`**: the packets returned have together at most `8·|b|` cells, and there are at most `|b|/4` of them -/
theorem udec_cells (b : Bytes) (ps : List Packet) (h : udec b = .ok ps) :
    (ps.map Packet.cells).sum ≤ 8 * b.length + 0 ∧ ps.length * 4 ≤ b.length :=
  Rtcp.udec_cells b ps h

/-- `(*CompoundPacket).Unmarshal` -/
theorem cdec_cells (b : Bytes) (ps : List Packet) (h : cdec b = .ok ps) :
    (ps.map Packet.cells).sum ≤ 8 * b.length + 0 ∧ ps.length * 4 ≤ b.length :=
  Rtcp.cdec_cells b ps h

/-- one frame: the packet cut from the front costs at most 8 cells per octet *of its frame* -/
theorem frame_cells (b : Bytes) (p : Packet) (n : Nat) (h : unmarshalOne b = .ok (p, n)) : p.cells ≤ 8 * n + 0 ∧ 4 ≤ n ∧ n ≤ b.length :=
  unmarshalOne_cells h

/-! ### exported sub-structure decoders -/

theorem header_cells (b : Bytes) (v : Header) (h : Header.dec b = .ok v) : v.cells ≤ 1 * b.length + 0 := by
  have := Header.dec_cells h; omega
theorem receptionReport_cells (b : Bytes) (v : ReceptionReport) (h : ReceptionReport.dec b = .ok v) : v.cells ≤ 1 * b.length + 0 := by
  have := ReceptionReport.dec_cells h; omega
theorem sdesChunk_cells (b : Bytes) (v : SDESChunk) (h : SDESChunk.dec b = .ok v) : v.cells ≤ 1 * b.length + 0 := by
  have := SDESChunk.dec_cells h; omega
theorem sdesItem_cells (b : Bytes) (v : SDESItem) (h : SDESItem.dec b = .ok v) : v.cells ≤ 1 * b.length + 0 := by
  have := SDESItem.dec_cells h; omega
theorem runLengthChunk_cells (b : Bytes) (v : TwccChunk) (h : rlChunkDec b = .ok v) : v.cells ≤ 8 * b.length + 0 := by
  have := rlChunkDec_cells h; omega
theorem statusVectorChunk_cells (b : Bytes) (v : TwccChunk) (h : svChunkDec b = .ok v) : v.cells ≤ 8 * b.length + 0 := by
  have := svChunkDec_cells h; omega
theorem recvDelta_cells (b : Bytes) (v : RecvDelta) (h : RecvDelta.dec b = .ok v) : v.cells ≤ 2 * b.length + 0 := by
  have := RecvDelta.dec_cells h; omega
/-- the two internal sub-decoders of RFC 8888 -/
theorem ccfbBlock_cells (b : Bytes) (v : CcfbBlock) (h : CcfbBlock.dec b = .ok v) : v.cells ≤ 2 * b.length + 0 := by
  have := CcfbBlock.dec_cells h; omega
theorem ccfbMetric_cells (b : Bytes) (v : CcfbMetric) (h : CcfbMetric.dec b = .ok v) : v.cells ≤ 2 * b.length + 0 := by
  have := CcfbMetric.dec_cells h; omega
/-- one XR report block: cells ≤ octets consumed (at least four) -/
theorem xrBlock_cells (buf : Bytes) (blk : XRBlock) (rest : Bytes) (h : xrDecBlock buf = .ok (blk, rest)) :
    blk.cells + rest.length ≤ 1 * buf.length + 0 ∧ rest.length + 4 ≤ buf.length := by
  have := xrDecBlock_cells h; omega

/-! ### all 23 entry points of `C01.Entry` -/

/-- cells of what an entry point returns -/
def runCells : Entry → Bytes → Out Nat
  | .datagram, b => (fun ps => (ps.map Packet.cells).sum) <$> udec b
  | .packet k, b => Packet.cells <$> decKind k b
  | .compound, b => (fun ps => (ps.map Packet.cells).sum) <$> cdec b
  | .header, b => Header.cells <$> Header.dec b
  | .receptionReport, b => ReceptionReport.cells <$> ReceptionReport.dec b
  | .sdesChunk, b => SDESChunk.cells <$> SDESChunk.dec b
  | .sdesItem, b => SDESItem.cells <$> SDESItem.dec b
  | .runLengthChunk, b => TwccChunk.cells <$> rlChunkDec b
  | .statusVectorChunk, b => TwccChunk.cells <$> svChunkDec b
  | .recvDelta, b => RecvDelta.cells <$> RecvDelta.dec b

/-- `runCells` looks at the same call as `run` -/
theorem runCells_run (e : Entry) (b : Bytes) : (fun _ => ()) <$> runCells e b = run e b := by
  cases e with
  | datagram => simp only [runCells, run]; cases udec b <;> rfl
  | packet k => simp only [runCells, run]; cases decKind k b <;> rfl
  | compound => simp only [runCells, run]; cases cdec b <;> rfl
  | header => simp only [runCells, run]; cases Header.dec b <;> rfl
  | receptionReport => simp only [runCells, run]; cases ReceptionReport.dec b <;> rfl
  | sdesChunk => simp only [runCells, run]; cases SDESChunk.dec b <;> rfl
  | sdesItem => simp only [runCells, run]; cases SDESItem.dec b <;> rfl
  | runLengthChunk => simp only [runCells, run]; cases rlChunkDec b <;> rfl
  | statusVectorChunk => simp only [runCells, run]; cases svChunkDec b <;> rfl
  | recvDelta => simp only [runCells, run]; cases RecvDelta.dec b <;> rfl

/-- **value size is linear in the input**, for every byte string and every entry point:
whenever the entry point returns a value, the value has at most `8·|b|` cells -/
theorem cells_bounded (e : Entry) (b : Bytes) (n : Nat) (h : runCells e b = .ok n) : n ≤ 8 * b.length + 0 := by
  cases e <;> simp only [runCells] at h <;> obtain ⟨v, hv, rfl⟩ := Out.map_eq_ok.mp h
  · exact (udec_cells b v hv).1
  · exact decKind_cells _ b v hv
  · exact (cdec_cells b v hv).1
  · have := header_cells b v hv; omega
  · have := receptionReport_cells b v hv; omega
  · have := sdesChunk_cells b v hv; omega
  · have := sdesItem_cells b v hv; omega
  · exact runLengthChunk_cells b v hv
  · exact statusVectorChunk_cells b v hv
  · have := recvDelta_cells b v hv; omega

/-! ### what a rejected input leaves in the receiver (the decoders that fill it incrementally) -/

theorem sdes_receiver (b : Bytes) : (SourceDescription.decP b).1.cells ≤ 1 * b.length + 0 := by
  have := SourceDescription.decP_cells b; omega
theorem sdesChunk_receiver (b : Bytes) : (SDESChunk.decP b).1.cells ≤ 1 * b.length + 1 := by
  have := SDESChunk.decP_cells_le b; omega
theorem ccfb_receiver (b : Bytes) : (Ccfb.decP b).1.cells ≤ 2 * b.length + 2 := Ccfb.decP_cells b
theorem xr_receiver (b : Bytes) : (XR.decP b).1.cells ≤ 1 * b.length + 1 := by
  have := (XR.decP_cells b).1; omega
/-- TWCC: the chunk loop appends the deltas a chunk announces before the delta loop looks for their octets; on a rejected
packet up to 65549 of them (two cells each) stay behind — a constant, not a multiple of the input (`twcc_bounded`) -/
theorem twcc_receiver (b : Bytes) : (Twcc.decP b).1.cells ≤ 8 * b.length + 131108 := (Twcc.decP_cells b).1

/-! ### non-vacuity -/

/-- an accepted TWCC packet: 20 fixed octets and 22 one-bit status vector chunks of 14 "not received" symbols -/
def exTwcc : Bytes :=
  [0x8f, 0xcd, 0, 15,  0, 0, 0, 1,  0, 0, 0, 2,  0, 1,  0x01, 0x34,  0, 0, 7,  3] ++ (List.replicate 22 [0x80, 0x00]).flatten
/-- an accepted TWCC packet with one status vector chunk of 14 small deltas and the 14 delta octets -/
def exTwccDeltas : Bytes :=
  [0x8f, 0xcd, 0, 8,  0, 0, 0, 1,  0, 0, 0, 2,  0, 1,  0, 14,  0, 0, 7,  3,  0xbf, 0xff,  1, 2, 3, 4, 5, 6, 7, 8, 9, 10, 11, 12, 13, 14]
def exBye : Bytes := [0x81, 0xcb, 0, 3,  0, 0, 0, 9,  3, 0x62, 0x79, 0x65,  0, 0, 0, 0]

/-- the factor of the TWCC bound cannot be lowered to 5: 64 octets in, 362 cells out -/
theorem twcc_factor_needed : exTwcc.length = 64 ∧ runCells (.packet .twcc) exTwcc = .ok 362 ∧ 362 > 5 * 64 := by decide

example : runCells (.packet .twcc) exTwccDeltas = .ok 54 ∧ exTwccDeltas.length = 36 := by decide
example : runCells (.packet .bye) exBye = .ok 4 := by decide
/-- a datagram of three packets: 116 octets, 420 cells, within `8·116` and `3·4 ≤ 116` -/
example : runCells .datagram (exTwcc ++ exBye ++ exTwccDeltas) = .ok 420 ∧ (exTwcc ++ exBye ++ exTwccDeltas).length = 116 := by decide
/-- a rejected TWCC packet (status count 100 announced by one run-length chunk, only two delta octets present) keeps its
announced deltas: 24 octets in, 213 cells left in the receiver — more than `8·24`, so the constant of `twcc_receiver`
is needed (its size is governed by `twcc_bounded`) -/
def exTwccRejected : Bytes := [0x8f, 0xcd, 0, 5,  0, 0, 0, 1,  0, 0, 0, 2,  0, 1,  0, 100,  0, 0, 7,  3,  0x20, 0x64, 0, 0]
set_option maxRecDepth 4000 in
example : (Twcc.decP exTwccRejected).2 = .err ∧ (Twcc.decP exTwccRejected).1.cells = 213 ∧ 213 > 8 * exTwccRejected.length := by decide

end Rtcp.C01
