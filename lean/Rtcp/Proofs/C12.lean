/-
  C12 — NACK pair helpers. `Range` is modelled with an arbitrary *stateful* callback
  `f : σ → seqno → σ × continue?`, so every early-stop position and every callback is covered.
-/
import Rtcp.Model.Nack
import Rtcp.Lemmas.Bytes
namespace Rtcp.C12
open Rtcp
set_option linter.unusedSimpArgs false
set_option linter.unusedVariables false

/-- visit the list in order, stop right after the first callback that returns `false` -/
def foldUntil {σ : Type} (f : σ → Nat → σ × Bool) : σ → List Nat → σ
  | s, [] => s
  | s, x :: xs => if (f s x).2 then foldUntil f (f s x).1 xs else (f s x).1

/-- the specification: ID, then ID+i+1 (mod 2^16) for each set bit i, ascending -/
def specList (id bm : Nat) : List Nat :=
  id :: ((List.range' 0 16).filter (bitSet bm)).map (fun i => (id + i + 1) % 65536)

theorem div_pow_succ (bm i : Nat) : bm / 2 ^ (i + 1) = bm / 2 ^ i / 2 := by
  rw [Nat.pow_succ, Nat.div_div_eq_div_mul]

theorem bits_above_zero (bm i j : Nat) (h : bm / 2 ^ i = 0) (hj : i ≤ j) : bitSet bm j = false := by
  have hlt : bm < 2 ^ i := by
    have hp : 0 < 2 ^ i := Nat.pow_pos (by decide)
    exact (Nat.div_eq_zero_iff_lt hp).mp h
  have : bm < 2 ^ j := Nat.lt_of_lt_of_le hlt (Nat.pow_le_pow_right (by decide) hj)
  simp [bitSet, Nat.div_eq_of_lt this]

theorem filter_empty_of_zero (bm i n : Nat) (h : bm / 2 ^ i = 0) : (List.range' i n).filter (bitSet bm) = [] := by
  apply List.filter_eq_nil_iff.mpr
  intro j hj
  have := (List.mem_range'_1.mp hj).1
  simp [bits_above_zero bm i j h this]

/-- loop invariant: at index `i` the remaining bitmap is the bits of `bm` at positions ≥ i -/
theorem rangeLoop_spec {σ : Type} (f : σ → Nat → σ × Bool) (id bm : Nat) (gas i : Nat) (s : σ)
    (hbm : bm < 65536) (hi : i ≤ 16) (hg : 17 ≤ gas + i) :
    rangeLoop f id gas (bm / 2 ^ i * 2 ^ i) i s
      = foldUntil f s (((List.range' i (16 - i)).filter (bitSet bm)).map (fun i => (id + i + 1) % 65536)) := by
  induction gas generalizing i s with
  | zero => omega
  | succ g ih =>
    unfold rangeLoop
    have hp : 0 < 2 ^ i := Nat.pow_pos (by decide)
    by_cases hz : bm / 2 ^ i = 0
    · simp [hz, filter_empty_of_zero bm i _ hz, foldUntil]
    · have hne : bm / 2 ^ i * 2 ^ i ≠ 0 := by
        intro h; rcases Nat.mul_eq_zero.mp h with h | h <;> omega
      rw [if_neg hne]
      have hi16 : i < 16 := by
        apply Nat.lt_of_not_le; intro h16
        have : i = 16 := by omega
        subst this
        have : bm / 2 ^ 16 = 0 := Nat.div_eq_of_lt (by simpa using hbm)
        exact hz this
      have hbit : bitSet (bm / 2 ^ i * 2 ^ i) i = bitSet bm i := by
        simp [bitSet, Nat.mul_div_cancel _ hp]
      have hrange : List.range' i (16 - i) = i :: List.range' (i + 1) (16 - (i + 1)) := by
        have : 16 - i = (16 - (i + 1)) + 1 := by omega
        rw [this, List.range'_succ]
      have hq := Nat.div_add_mod (bm / 2 ^ i) 2
      rw [hbit, hrange]
      by_cases hb : bitSet bm i = true
      · simp only [hb, if_true, List.filter_cons_of_pos, List.map_cons, foldUntil]
        have hmod : bm / 2 ^ i % 2 = 1 := by simpa [bitSet] using hb
        have hnext : bm / 2 ^ i * 2 ^ i - 2 ^ i = bm / 2 ^ (i + 1) * 2 ^ (i + 1) := by
          rw [div_pow_succ, Nat.pow_succ]
          have e : bm / 2 ^ i = 2 * (bm / 2 ^ i / 2) + 1 := by omega
          rw [show bm / 2 ^ i * 2 ^ i = (2 * (bm / 2 ^ i / 2) + 1) * 2 ^ i from by rw [← e]]
          rw [Nat.add_mul, Nat.one_mul, Nat.add_sub_cancel, Nat.mul_comm 2, Nat.mul_assoc, Nat.mul_comm 2]
        cases hf : f s ((id + i + 1) % 65536) with
        | mk s' more =>
          cases more with
          | true => simp only [if_true]; rw [hnext]; exact ih (i + 1) s' (by omega) (by omega)
          | false => simp
      · have hb' : bitSet bm i = false := by simpa using hb
        simp only [hb', Bool.false_eq_true, if_false, List.filter_cons_of_neg, not_false_eq_true]
        have hmod : bm / 2 ^ i % 2 = 0 := by
          have : ¬ (bm / 2 ^ i % 2 = 1) := by simpa [bitSet] using hb'
          omega
        have hnext : bm / 2 ^ i * 2 ^ i = bm / 2 ^ (i + 1) * 2 ^ (i + 1) := by
          rw [div_pow_succ, Nat.pow_succ]
          have e : bm / 2 ^ i = 2 * (bm / 2 ^ i / 2) := by omega
          rw [show bm / 2 ^ i * 2 ^ i = (2 * (bm / 2 ^ i / 2)) * 2 ^ i from by rw [← e]]
          rw [Nat.mul_comm 2, Nat.mul_assoc, Nat.mul_comm 2]
        rw [hnext]; exact ih (i + 1) s (by omega) (by omega)

/-- **Range** visits exactly the specified numbers in order and stops as soon as the callback returns false —
for every pair, every callback and every callback state -/
theorem range_eq_foldUntil {σ : Type} (p : NackPair) (hbm : p.lost < 65536) (f : σ → Nat → σ × Bool) (s0 : σ) :
    p.range f s0 = foldUntil f s0 (specList p.packetID p.lost) := by
  unfold NackPair.range specList foldUntil
  cases hf : f s0 p.packetID with
  | mk s1 more =>
    cases more with
    | true =>
      simp only [if_true]
      have := rangeLoop_spec f p.packetID p.lost 17 0 s1 hbm (by omega) (by omega)
      simpa using this
    | false => simp

theorem foldUntil_collect (l acc : List Nat) : foldUntil (fun acc s => (acc ++ [s], true)) acc l = acc ++ l := by
  induction l generalizing acc with
  | nil => simp [foldUntil]
  | cons x xs ih => simp [foldUntil, ih]

/-- **PacketList** = ID followed by ID+i+1 mod 2^16 for each set bit i in ascending i — all 2^32 pairs -/
theorem packetList_spec (p : NackPair) (hbm : p.lost < 65536) : p.packetList = specList p.packetID p.lost := by
  unfold NackPair.packetList
  rw [range_eq_foldUntil p hbm, foldUntil_collect]; simp

/-- the callback that stops at its k-th call sees exactly the first k numbers -/
theorem range_early_stop (p : NackPair) (hbm : p.lost < 65536) (k : Nat) (hk : 0 < k) :
    p.range (fun (acc : List Nat) s => (acc ++ [s], !(acc.length + 1 ≥ k))) [] = (specList p.packetID p.lost).take k := by
  rw [range_eq_foldUntil p hbm]
  have gen : ∀ (l acc : List Nat), acc.length < k →
      foldUntil (fun (acc : List Nat) s => (acc ++ [s], !(acc.length + 1 ≥ k))) acc l = acc ++ l.take (k - acc.length) := by
    intro l
    induction l with
    | nil => intro acc _; simp [foldUntil]
    | cons x xs ih =>
      intro acc hacc
      simp only [foldUntil]
      by_cases hlast : acc.length + 1 ≥ k
      · have : k - acc.length = 1 := by omega
        simp [hlast, this]
      · simp only [hlast, decide_false, Bool.not_false, if_true]
        rw [ih (acc ++ [x]) (by simp; omega)]
        have : k - acc.length = (k - (acc ++ [x]).length) + 1 := by simp; omega
        rw [this]; simp
  simpa using gen _ [] (by simpa using hk)

/-- sequence numbers a pair stands for -/
def covers (p : NackPair) (s : Nat) : Prop :=
  s = p.packetID ∨ ∃ i, i < 16 ∧ bitSet p.lost i = true ∧ s = (p.packetID + i + 1) % 65536

theorem bitSet_eq_testBit (bm i : Nat) : bitSet bm i = bm.testBit i := by
  simp [bitSet, Nat.testBit_eq_decide_div_mod_eq]

theorem bitSet_or_pow (bm k i : Nat) : bitSet (bm ||| 2 ^ k) i = (bitSet bm i || decide (k = i)) := by
  simp [bitSet_eq_testBit, Nat.testBit_or, Nat.testBit_two_pow]

theorem nackLoop_covers (ms : List Nat) (cur : NackPair) (s : Nat)
    (hid : cur.packetID < 65536) (hms : ∀ m ∈ ms, m < 65536) (hs : s < 65536) :
    (∃ p ∈ nackLoop ms cur, covers p s) ↔ (covers cur s ∨ s ∈ ms) := by
  induction ms generalizing cur with
  | nil => simp [nackLoop]
  | cons m ms ih =>
    have hm : m < 65536 := hms m (by simp)
    have hms' : ∀ x ∈ ms, x < 65536 := fun x hx => hms x (by simp [hx])
    unfold nackLoop
    dsimp only
    split
    · rename_i hd
      simp only [List.mem_cons, exists_eq_or_imp]
      rw [ih { packetID := m, lost := 0 } hm hms']
      have hc : covers { packetID := m, lost := 0 } s ↔ s = m := by
        simp [covers, bitSet]
      rw [hc]
    · rename_i hd
      rw [ih { packetID := cur.packetID, lost := cur.lost ||| bit16 (((m + 65536 - cur.packetID) % 65536 + 65535) % 65536) } hid hms']
      simp only [List.mem_cons]
      have hcov : covers { packetID := cur.packetID, lost := cur.lost ||| bit16 (((m + 65536 - cur.packetID) % 65536 + 65535) % 65536) } s
          ↔ (covers cur s ∨ s = m) := by
        by_cases h0 : (m + 65536 - cur.packetID) % 65536 = 0
        · have hmid : m = cur.packetID := by omega
          have hb : bit16 ((0 + 65535) % 65536) = 0 := by decide
          rw [h0, hb]
          simp only [Nat.or_zero]
          constructor
          · intro h; exact Or.inl h
          · rintro (h | h)
            · exact h
            · left; show s = cur.packetID; omega
        · have hk : ((m + 65536 - cur.packetID) % 65536 + 65535) % 65536 = (m + 65536 - cur.packetID) % 65536 - 1 := by omega
          have hk16 : (m + 65536 - cur.packetID) % 65536 - 1 < 16 := by omega
          rw [hk]
          simp only [bit16, hk16, if_true, covers, bitSet_or_pow, Bool.or_eq_true, decide_eq_true_eq]
          constructor
          · rintro (h | ⟨i, hi, hb, hsi⟩)
            · exact Or.inl (Or.inl h)
            · rcases hb with hb | hb
              · exact Or.inl (Or.inr ⟨i, hi, hb, hsi⟩)
              · right; subst hb; omega
          · rintro ((h | ⟨i, hi, hb, hsi⟩) | h)
            · exact Or.inl h
            · exact Or.inr ⟨i, hi, Or.inl hb, hsi⟩
            · right
              exact ⟨(m + 65536 - cur.packetID) % 65536 - 1, hk16, Or.inr rfl, by omega⟩
      rw [hcov]
      constructor
      · rintro ((h | h) | h)
        · exact Or.inl h
        · exact Or.inr (Or.inl h)
        · exact Or.inr (Or.inr h)
      · rintro (h | h | h)
        · exact Or.inl (Or.inl h)
        · exact Or.inl (Or.inr h)
        · exact Or.inr h

/-- **coverage**: the pairs cover exactly the requested set — any order, duplicates, across the wrap -/
theorem pairs_cover (seqs : List Nat) (hseqs : ∀ m ∈ seqs, m < 65536) (s : Nat) (hs : s < 65536) :
    (∃ p ∈ nackPairs seqs, covers p s) ↔ s ∈ seqs := by
  cases seqs with
  | nil => simp [nackPairs]
  | cons x xs =>
    unfold nackPairs
    rw [nackLoop_covers xs _ s (hseqs x (by simp)) (fun m hm => hseqs m (by simp [hm])) hs]
    simp [covers, bitSet]

/-- `covers` is what `PacketList` enumerates -/
theorem covers_iff_mem_packetList (p : NackPair) (hbm : p.lost < 65536) (s : Nat) :
    covers p s ↔ s ∈ p.packetList := by
  rw [packetList_spec p hbm]
  simp only [specList, covers, List.mem_cons, List.mem_map, List.mem_filter, List.mem_range'_1]
  constructor
  · rintro (h | ⟨i, hi, hb, hsi⟩)
    · exact Or.inl h
    · exact Or.inr ⟨i, ⟨⟨by omega, by omega⟩, hb⟩, hsi.symm⟩
  · rintro (h | ⟨i, ⟨⟨_, hi⟩, hb⟩, hsi⟩)
    · exact Or.inl h
    · exact Or.inr ⟨i, by omega, hb, hsi.symm⟩

example : nackPairs [65534, 65535, 0, 1, 20, 65534] = [⟨65534, 7⟩, ⟨20, 0⟩, ⟨65534, 0⟩] := by decide

/-- non-vacuity / wrap: the pair {65530, 0x8421} lists 65530, 65531, 0, 5, 10 -/
example : NackPair.packetList ⟨65530, 0x8421⟩ = [65530, 65531, 0, 5, 10] := by decide

end Rtcp.C12
