/-
  C12b — the builder and the enumerator composed, with no premise on the pairs.

  `C12.pairs_cover` speaks about the abstract relation `covers`, and `C12.packetList_spec` /
  `covers_iff_mem_packetList` need `p.lost < 65536`. Here the premise is discharged for everything
  `NackPairsFromSequenceNumbers` produces (`nackPairs_wf`), which gives the property as a user reads it:
  the numbers `PacketList` enumerates over the built pairs are exactly the requested ones
  (`packetLists_cover`), every enumerated number is a 16-bit value (`packetList_u16`), a pair never lists a
  number twice (`packetList_nodup`) and lists `1 + popcount(bitmap)` numbers (`packetList_length`).
-/
import Rtcp.Proofs.C12
namespace Rtcp.C12
open Rtcp
set_option linter.unusedSimpArgs false
set_option linter.unusedVariables false

def NackPair.WF16 (p : NackPair) : Prop := p.packetID < 65536 ∧ p.lost < 65536

theorem bit16_lt (k : Nat) : bit16 k < 65536 := by
  unfold bit16
  split
  · rename_i h
    calc 2 ^ k < 2 ^ 16 := Nat.pow_lt_pow_right (by omega) h
      _ = 65536 := by decide
  · omega

theorem or_bit16_lt (a k : Nat) (h : a < 65536) : a ||| bit16 k < 65536 := by
  have h1 : a < 2 ^ 16 := by simpa using h
  have h2 : bit16 k < 2 ^ 16 := by simpa using bit16_lt k
  simpa using Nat.or_lt_two_pow h1 h2

theorem nackLoop_wf (ms : List Nat) (cur : NackPair) (hc : NackPair.WF16 cur) (hms : ∀ m ∈ ms, m < 65536) :
    ∀ p ∈ nackLoop ms cur, NackPair.WF16 p := by
  induction ms generalizing cur with
  | nil => intro p hp; simp [nackLoop] at hp; subst hp; exact hc
  | cons m ms ih =>
    have hm : m < 65536 := hms m (by simp)
    have hms' : ∀ x ∈ ms, x < 65536 := fun x hx => hms x (by simp [hx])
    unfold nackLoop
    dsimp only
    split
    · intro p hp
      rcases List.mem_cons.mp hp with h | h
      · subst h; exact hc
      · exact ih { packetID := m, lost := 0 } ⟨hm, by simp⟩ hms' p h
    · exact ih _ ⟨hc.1, or_bit16_lt _ _ hc.2⟩ hms'

/-- every pair built from 16-bit sequence numbers has a 16-bit ID and a 16-bit bitmap -/
theorem nackPairs_wf (seqs : List Nat) (hseqs : ∀ m ∈ seqs, m < 65536) :
    ∀ p ∈ nackPairs seqs, NackPair.WF16 p := by
  cases seqs with
  | nil => intro p hp; simp [nackPairs] at hp
  | cons x xs =>
    unfold nackPairs
    exact nackLoop_wf xs _ ⟨hseqs x (by simp), by simp⟩ (fun m hm => hseqs m (by simp [hm]))

/-- **the property end to end**: what `PacketList` enumerates over the pairs of
`NackPairsFromSequenceNumbers(seqs)` is exactly the set of `seqs` — none missing, none extra. -/
theorem packetLists_cover (seqs : List Nat) (hseqs : ∀ m ∈ seqs, m < 65536) (s : Nat) :
    s ∈ (nackPairs seqs).flatMap NackPair.packetList ↔ s ∈ seqs := by
  rw [List.mem_flatMap]
  constructor
  · rintro ⟨p, hp, hs⟩
    have hw := nackPairs_wf seqs hseqs p hp
    have hc := (covers_iff_mem_packetList p hw.2 s).mpr hs
    have hs16 : s < 65536 := by
      rcases hc with h | ⟨i, hi, hb, hsi⟩
      · have h1 : s = p.packetID := h
        have h2 := hw.1
        omega
      · omega
    exact (pairs_cover seqs hseqs s hs16).mp ⟨p, hp, hc⟩
  · intro hs
    have hs16 := hseqs s hs
    obtain ⟨p, hp, hc⟩ := (pairs_cover seqs hseqs s hs16).mpr hs
    have hw := nackPairs_wf seqs hseqs p hp
    exact ⟨p, hp, (covers_iff_mem_packetList p hw.2 s).mp hc⟩

/-- every number a 16-bit pair lists is a 16-bit number -/
theorem packetList_u16 (p : NackPair) (hw : NackPair.WF16 p) : ∀ s ∈ p.packetList, s < 65536 := by
  intro s hs
  rw [packetList_spec p hw.2] at hs
  simp only [specList, List.mem_cons, List.mem_map] at hs
  rcases hs with h | ⟨i, _, h⟩
  · have := hw.1; omega
  · omega

/-- `PacketList` has one entry for the ID and one per set bit -/
theorem packetList_length (p : NackPair) (hbm : p.lost < 65536) :
    p.packetList.length = 1 + ((List.range' 0 16).filter (bitSet p.lost)).length := by
  rw [packetList_spec p hbm]
  simp [specList]; omega

theorem map_offset_nodup (id : Nat) (l : List Nat) (hl : ∀ i ∈ l, i < 16) (hn : l.Nodup) :
    (l.map (fun i => (id + i + 1) % 65536)).Nodup ∧ ∀ i ∈ l, (id + i + 1) % 65536 ≠ id % 65536 := by
  induction l with
  | nil => simp
  | cons a l ih =>
    have hl' : ∀ i ∈ l, i < 16 := fun i hi => hl i (by simp [hi])
    have ha : a < 16 := hl a (by simp)
    rcases List.nodup_cons.mp hn with ⟨hna, hnl⟩
    obtain ⟨ih1, ih2⟩ := ih hl' hnl
    constructor
    · rw [List.map_cons, List.nodup_cons]
      refine ⟨?_, ih1⟩
      intro hmem
      rcases List.mem_map.mp hmem with ⟨j, hj, hje⟩
      have hj16 := hl' j hj
      have : j = a := by omega
      subst this
      exact hna hj
    · intro i hi
      rcases List.mem_cons.mp hi with h | h
      · subst h; omega
      · exact ih2 i h

/-- a pair never lists a sequence number twice (the 17 candidates ID, ID+1 … ID+16 are distinct mod 2^16) -/
theorem packetList_nodup (p : NackPair) (hw : NackPair.WF16 p) : p.packetList.Nodup := by
  rw [packetList_spec p hw.2]
  unfold specList
  have hf : ∀ i ∈ (List.range' 0 16).filter (bitSet p.lost), i < 16 := by
    intro i hi
    have := (List.mem_filter.mp hi).1
    simp [List.mem_range'_1] at this
    omega
  have hn : ((List.range' 0 16).filter (bitSet p.lost)).Nodup :=
    List.Nodup.sublist List.filter_sublist (List.nodup_range' (step := 1) (by omega))
  obtain ⟨h1, h2⟩ := map_offset_nodup p.packetID _ hf hn
  rw [List.nodup_cons]
  refine ⟨?_, h1⟩
  intro hmem
  rcases List.mem_map.mp hmem with ⟨i, hi, hie⟩
  have := h2 i hi
  have hid := hw.1
  omega

/-- non-vacuity: a list with duplicates, out of order and across the wrap -/
example : (nackPairs [65534, 65535, 0, 1, 20, 65534]).flatMap NackPair.packetList = [65534, 65535, 0, 1, 20, 65534] := by decide
example : NackPair.WF16 ⟨65530, 0x8421⟩ := ⟨by decide, by decide⟩

end Rtcp.C12
