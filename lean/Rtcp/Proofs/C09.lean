import Rtcp.Lemmas.Safe6
namespace Rtcp.C09
end Rtcp.C09
