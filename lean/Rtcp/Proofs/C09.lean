/-
  C09 — re-encoding a decoded datagram is stable.
  Proved for every datagram `rtcp.Unmarshal` accepts: marshalling the returned packets never panics (and never
  diverges) — for every packet type, including TWCC (sizes derived from the consistency theorem C13) and XR
  (what the reflective reader returns has the shape the writer expects).
  Idempotence decode∘encode∘decode: proved for the datagrams that are encodings of well-formed packets
  (C02.rt_datagram + C02.rebytes); for arbitrary accepted inputs it is tied by the `reenc` correspondence
  (mutated, spliced and resized valid encodings) — stated as partial in the evidence.
-/
import Rtcp.Lemmas.NoPanic2
import Rtcp.Proofs.C02
namespace Rtcp.C09
open Rtcp Gen Out
set_option linter.unusedSimpArgs false
set_option linter.unusedVariables false

theorem normLoop_exp_lt (gas exp m : Nat) (h : exp < 256) (e' m' : Nat) (hl : rembNormLoop gas exp m = .ok (e', m')) : e' < 256 := by
  induction gas generalizing exp m with
  | zero => simp [rembNormLoop] at hl
  | succ g ih =>
    unfold rembNormLoop at hl
    split at hl
    · exact ih _ _ (Nat.mod_lt _ (by decide)) hl
    · simp at hl; omega

theorem decBits_lt (e m bits : Nat) (h : rembDecBits e m = .ok bits) : bits < 4294967296 := by
  unfold rembDecBits at h
  dsimp only at h
  obtain ⟨⟨exp, mant⟩, hl, h⟩ := bind_eq_ok.mp h
  simp at h
  have hexp : exp < 256 := by
    split at hl
    · exact normLoop_exp_lt _ _ _ (Nat.mod_lt _ (by decide)) _ _ hl
    · simp at hl; rw [← hl.1]; exact Nat.mod_lt _ (by decide)
  have : mant % 8388608 < 8388608 := Nat.mod_lt _ (by decide)
  omega

theorem remb_decoded_bits (b : Bytes) (p : Remb) (h : Remb.dec b = .ok p) : p.bitrate < 4294967296 := by
  unfold Remb.dec at h
  split at h
  · cases h
  · obtain ⟨_, _, h⟩ := bind_eq_ok.mp h
    split at h
    · cases h
    · split at h
      · cases h
      · split at h
        · cases h
        · obtain ⟨_, _, h⟩ := bind_eq_ok.mp h
          split at h
          · cases h
          · obtain ⟨_, _, h⟩ := bind_eq_ok.mp h
            dsimp only at h
            split at h
            · cases h
            · split at h
              · cases h
              · obtain ⟨_, _, h⟩ := bind_eq_ok.mp h
                obtain ⟨_, _, h⟩ := bind_eq_ok.mp h
                split at h
                · cases h
                · obtain ⟨_, _, h⟩ := bind_eq_ok.mp h
                  split at h
                  · cases h
                  · obtain ⟨_, _, h⟩ := bind_eq_ok.mp h
                    split at h
                    · cases h
                    · obtain ⟨_, _, h⟩ := bind_eq_ok.mp h
                      obtain ⟨_, _, h⟩ := bind_eq_ok.mp h
                      obtain ⟨_, _, h⟩ := bind_eq_ok.mp h
                      obtain ⟨bits, hb, h⟩ := bind_eq_ok.mp h
                      obtain ⟨_, _, h⟩ := bind_eq_ok.mp h
                      simp at h
                      rw [← h]
                      exact decBits_lt _ _ _ hb

/-- a decoded XR block can be written back -/
theorem xr_block_decoded_safe (buf : Bytes) (blk : XRBlock) (rest : Bytes) (h : xrDecBlock buf = .ok (blk, rest)) :
    blk.setup.enc.Safe := by
  unfold xrDecBlock at h
  obtain ⟨⟨hv, es0, r0⟩, hr, h⟩ := bind_eq_ok.mp h
  dsimp only at h
  split at h
  · rename_i bt x bl
    try dsimp only at h
    obtain ⟨⟨vs, es, r1⟩, hr1, h⟩ := bind_eq_ok.mp h
    dsimp only at h
    split at h
    · rename_i bt' ts' bl' vals
      simp at h
      obtain ⟨hb, _⟩ := h
      have hkind : blk.kind = xrKindOfType bt := by rw [← hb]; unfold XRBlock.unpack; split <;> rfl
      have hvals : blk.vals = vals := by rw [← hb]; unfold XRBlock.unpack; split <;> rfl
      have helems : blk.elems = es := by rw [← hb]; unfold XRBlock.unpack; split <;> rfl
      unfold XRBlock.enc
      show (writeItems (layoutOf blk.kind).items blk.setup.scalars blk.elems).Safe
      rw [hkind, helems]
      apply writeItems_safe_of_read _ _ _ _ _ (gen_layouts_sliceLast _) hr1
      simp [XRBlock.scalars, XRBlock.setup, hvals]
    · cases h
  · cases h

theorem xr_blocks_decoded_safe (gas : Nat) (buf : Bytes) (bs : List XRBlock) (h : xrDecBlocksP gas buf = (bs, .ok)) :
    (encXRBlocks (bs.map XRBlock.setup)).Safe := by
  induction gas generalizing buf bs with
  | zero => simp [xrDecBlocksP] at h
  | succ g ih =>
    unfold xrDecBlocksP at h
    split at h
    · simp at h; rw [h]; exact safe_ok _
    · cases hd : xrDecBlock buf with
      | ok r =>
        obtain ⟨blk, rest⟩ := r
        rw [hd] at h
        dsimp only at h
        cases hrec : xrDecBlocksP g rest with
        | mk bs' st =>
          rw [hrec] at h
          simp at h
          obtain ⟨h1, h2⟩ := h
          subst h2
          rw [← h1]
          simp only [List.map_cons, encXRBlocks]
          apply safe_bind (xr_block_decoded_safe buf blk rest hd); intro _ _
          apply safe_bind (ih rest bs' hrec); intro _ _
          exact safe_ok _
      | err => rw [hd] at h; simp [Out.status] at h
      | panic => rw [hd] at h; simp [Out.status] at h
      | diverge => rw [hd] at h; simp [Out.status] at h

theorem xr_decoded_safe (b : Bytes) (x : XR) (h : XR.dec b = .ok x) : x.enc.Safe := by
  have ⟨hst, hv⟩ := Status.toOut_eq_ok h
  unfold XR.decP at hst hv
  cases hh : Header.dec b with
  | ok hd =>
    simp only [hh] at hst hv
    split at hst
    · simp at hst
    · rename_i ht
      rw [if_neg ht] at hv
      try dsimp only at hst hv
      split at hst
      · simp at hst
      · rename_i hl
        rw [if_neg hl] at hv
        cases hb : xrDecBlocksP (b.length + 1) ((b.drop headerLength).drop 4) with
        | mk bs st =>
          rw [hb] at hst hv
          dsimp only at hst hv
          subst hst
          have := xr_blocks_decoded_safe _ _ _ hb
          rw [← hv]
          unfold XR.enc
          dsimp only
          apply safe_bind (Header.enc_safe _); intro _ _
          apply safe_bind this; intro _ _
          exact safe_ok _
  | err => simp [hh, Out.status] at hst
  | panic => simp [hh, Out.status] at hst
  | diverge => simp [hh, Out.status] at hst

/-- **whatever a decoder returned can be marshalled without a panic** -/
theorem decoded_enc_safe (k : Kind) (f : Bytes) (p : Packet) (h : decKind k f = .ok p) : p.encP.Safe := by
  cases k <;> simp only [decKind] at h <;> obtain ⟨v, hv, hp⟩ := map_eq_ok.mp h <;> rw [← hp] <;> simp only [Packet.encP]
  · apply safe_bind (SenderReport.enc_safe v); intro _ _; exact safe_ok _
  · apply safe_bind (ReceiverReport.enc_safe v); intro _ _; exact safe_ok _
  · apply safe_bind (SourceDescription.enc_safe v); intro _ _; exact safe_ok _
  · apply safe_bind (Goodbye.enc_safe v); intro _ _; exact safe_ok _
  · apply safe_bind (ApplicationDefined.enc_safe v); intro _ _; exact safe_ok _
  · apply safe_bind (TransportLayerNack.enc_safe v); intro _ _; exact safe_ok _
  · apply safe_bind (RapidResync.enc_safe v); intro _ _; exact safe_ok _
  · apply safe_bind (Twcc.enc_of_decoded_safe f v hv); intro _ _; exact safe_ok _
  · apply safe_bind (Ccfb.enc_safe v); intro _ _; exact safe_ok _
  · apply safe_bind (PictureLossIndication.enc_safe v); intro _ _; exact safe_ok _
  · apply safe_bind (SliceLossIndication.enc_safe v); intro _ _; exact safe_ok _
  · apply safe_bind (Remb.enc_safe v (remb_decoded_bits f v hv)); intro _ _; exact safe_ok _
  · apply safe_bind (FullIntraRequest.enc_safe v); intro _ _; exact safe_ok _
  · apply safe_bind (xr_decoded_safe f v hv); intro _ _; exact safe_ok _
  · exact safe_ok _

theorem loop_packets_decoded (gas : Nat) (b : Bytes) (ps : List Packet) (h : unmarshalLoop gas b = .ok ps) :
    ∀ p ∈ ps, ∃ k f, decKind k f = .ok p := by
  induction gas generalizing b ps with
  | zero => simp [unmarshalLoop] at h
  | succ g ih =>
    unfold unmarshalLoop at h
    split at h
    · simp at h; rw [h]; simp
    · obtain ⟨⟨p, n⟩, hp, h⟩ := bind_eq_ok.mp h
      dsimp only at h
      obtain ⟨rest, hr, h⟩ := bind_eq_ok.mp h
      obtain ⟨qs, hq, h⟩ := bind_eq_ok.mp h
      simp at h
      rw [← h]
      intro x hx
      rcases List.mem_cons.mp hx with hx | hx
      · rw [hx]
        unfold unmarshalOne at hp
        obtain ⟨hd, _, hp⟩ := bind_eq_ok.mp hp
        dsimp only at hp
        split at hp
        · cases hp
        · obtain ⟨inp, _, hp⟩ := bind_eq_ok.mp hp
          obtain ⟨q, hq', hp⟩ := bind_eq_ok.mp hp
          simp at hp
          exact ⟨_, _, by rw [← hp.1]; exact hq'⟩
      · exact ih rest qs hq x hx

theorem uencP_safe (ps : List Packet) (h : ∀ p ∈ ps, p.encP.Safe) : (uencP ps).Safe := by
  induction ps with
  | nil => exact safe_ok _
  | cons p ps ih =>
    unfold uencP
    apply safe_bind (h p (by simp)); intro _ _
    apply safe_bind (ih (fun q hq => h q (by simp [hq]))); intro _ _
    exact safe_ok _

/-- **for every datagram accepted by Unmarshal, marshalling the returned packets never panics** -/
theorem reenc_no_panic (b : Bytes) (ps : List Packet) (h : udec b = .ok ps) : uenc ps ≠ .panic ∧ uenc ps ≠ .diverge := by
  unfold udec at h
  obtain ⟨qs, hq, h⟩ := bind_eq_ok.mp h
  split at h
  · cases h
  · simp at h
    subst h
    have hall : ∀ p ∈ qs, p.encP.Safe := by
      intro p hp
      obtain ⟨k, f, hk⟩ := loop_packets_decoded _ _ _ hq p hp
      exact decoded_enc_safe k f p hk
    have := uencP_safe qs hall
    unfold uenc
    have hs : (uencP qs >>= fun x => pure x.1).Safe := by
      apply safe_bind this; intro _ _; exact safe_ok _
    exact hs

/-- **idempotence on the encodings of well-formed packets**: decode, re-encode, decode again gives the same list
and the same bytes -/
theorem idem_on_wellformed (ps : List Packet) (hne : ps ≠ []) (h : ∀ p ∈ ps, C02.DWF p) :
    ∃ b, uenc ps = .ok b ∧ udec b = .ok (ps.map C02.quant) ∧ uenc (ps.map C02.quant) = .ok b ∧
      (uenc (ps.map C02.quant) >>= udec) = .ok ((ps.map C02.quant).map C02.quant) := by
  have h1 := C02.rt_datagram ps hne h
  have h2 := C02.rebytes ps h
  cases hb : uenc ps with
  | ok b =>
    rw [hb, bind_ok] at h1
    refine ⟨b, rfl, h1, by rw [h2, hb], ?_⟩
    exact C02.rt_datagram (ps.map C02.quant) (by simpa using hne) (by
      intro p hp
      obtain ⟨q, hq, hqp⟩ := List.mem_map.mp hp
      rw [← hqp]; exact C02.quant_DWF q (h q hq))
  | err => rw [hb] at h1; cases h1
  | panic => rw [hb] at h1; cases h1
  | diverge => rw [hb] at h1; cases h1

end Rtcp.C09
