/-
  C06b — "exactly one packet per frame" and locality, read off the result.

  `C06.split` rewrites `Unmarshal` of a concatenation of frames into the frame-by-frame decoder. Here are the
  statements a user reads: if it succeeds, the i-th packet is the decoding of the i-th frame alone (`frames_pointwise`),
  there are as many packets as frames (`one_packet_per_frame`), a frame yields the same packet whatever its neighbours
  and its position are (`same_frame_same_packet`), and success is equivalent to every frame decoding on its own (`ok_iff_all_frames`).
-/
import Rtcp.Proofs.C06
namespace Rtcp.C06
open Rtcp Gen Out
set_option linter.unusedSimpArgs false
set_option linter.unusedVariables false

/-- `fs` and `ps` have the same length and each frame decodes, alone, to the packet at its position -/
inductive Pointwise : List Bytes → List Packet → Prop
  | nil : Pointwise [] []
  | cons {f fs p ps} : decFrame f = .ok p → Pointwise fs ps → Pointwise (f :: fs) (p :: ps)

theorem Pointwise.length_eq {fs ps} (h : Pointwise fs ps) : fs.length = ps.length := by
  induction h with
  | nil => rfl
  | cons _ _ ih => simp [ih]

theorem Pointwise.get {fs ps} (h : Pointwise fs ps) (i : Nat) (hi : i < fs.length) :
    ∃ hj : i < ps.length, decFrame fs[i] = .ok ps[i] := by
  induction h generalizing i with
  | nil => simp at hi
  | cons hp _ ih =>
    cases i with
    | zero => exact ⟨by simp, by simpa using hp⟩
    | succ i =>
      obtain ⟨hj, h⟩ := ih i (by simpa using hi)
      exact ⟨by simpa using hj, by simpa using h⟩

theorem decFrames_ok_iff (fs : List Bytes) (ps : List Packet) :
    decFrames fs = .ok ps ↔ Pointwise fs ps := by
  induction fs generalizing ps with
  | nil =>
    constructor
    · intro h; simp [decFrames] at h; subst h; exact .nil
    · intro h; cases h; rfl
  | cons f fs ih =>
    constructor
    · intro h
      simp only [decFrames] at h
      obtain ⟨p, hp, h⟩ := bind_eq_ok.mp h
      obtain ⟨qs, hq, h⟩ := bind_eq_ok.mp h
      simp at h; subst h
      exact .cons hp ((ih qs).mp hq)
    · intro h
      cases h with
      | cons hp hrest =>
        simp only [decFrames, hp, bind_ok, (ih _).mpr hrest, pure_eq]

/-- the i-th packet is the decoding of the i-th frame, and of nothing else -/
theorem frames_pointwise (fs : List Bytes) (hne : fs ≠ []) (h : ∀ f ∈ fs, IsFrame f) (ps : List Packet)
    (hok : udec fs.flatten = .ok ps) : Pointwise fs ps := by
  rw [split fs hne h] at hok
  exact (decFrames_ok_iff fs ps).mp hok

/-- **exactly one packet per frame** -/
theorem one_packet_per_frame (fs : List Bytes) (hne : fs ≠ []) (h : ∀ f ∈ fs, IsFrame f) (ps : List Packet)
    (hok : udec fs.flatten = .ok ps) : ps.length = fs.length :=
  (Pointwise.length_eq (frames_pointwise fs hne h ps hok)).symm

/-- the datagram decodes exactly when each frame decodes on its own (all-or-nothing, both directions) -/
theorem ok_iff_all_frames (fs : List Bytes) (hne : fs ≠ []) (h : ∀ f ∈ fs, IsFrame f) :
    (∃ ps, udec fs.flatten = .ok ps) ↔ ∀ f ∈ fs, ∃ p, decFrame f = .ok p := by
  rw [split fs hne h]
  clear hne h
  induction fs with
  | nil => simp [decFrames]
  | cons f fs ih =>
    constructor
    · rintro ⟨ps, hps⟩
      cases (decFrames_ok_iff _ _).mp hps with
      | cons hp hrest =>
        intro g hg
        rcases List.mem_cons.mp hg with hg | hg
        · subst hg; exact ⟨_, hp⟩
        · exact (ih.mp ⟨_, (decFrames_ok_iff _ _).mpr hrest⟩) g hg
    · intro hall
      obtain ⟨p, hp⟩ := hall f (by simp)
      obtain ⟨qs, hq⟩ := ih.mpr (fun g hg => hall g (by simp [hg]))
      exact ⟨p :: qs, by simp only [decFrames, hp, bind_ok, hq, pure_eq]⟩

/-- **locality**, by index: packet `i` is the decoding of frame `i` alone -/
theorem packet_of_own_frame (fs : List Bytes) (hne : fs ≠ []) (h : ∀ f ∈ fs, IsFrame f) (ps : List Packet)
    (hok : udec fs.flatten = .ok ps) (i : Nat) (hi : i < fs.length) :
    ∃ hj : i < ps.length, decFrame fs[i] = .ok ps[i] :=
  (frames_pointwise fs hne h ps hok).get i hi

/-- two datagrams that agree in frame `i` agree in packet `i`, whatever their other frames are -/
theorem same_frame_same_packet (fs gs : List Bytes) (hf : fs ≠ []) (hg : gs ≠ []) (h1 : ∀ f ∈ fs, IsFrame f)
    (h2 : ∀ f ∈ gs, IsFrame f) (ps qs : List Packet) (hps : udec fs.flatten = .ok ps) (hqs : udec gs.flatten = .ok qs)
    (i j : Nat) (hi : i < fs.length) (hj : j < gs.length) (heq : fs[i] = gs[j]) :
    ∃ (hi' : i < ps.length) (hj' : j < qs.length), ps[i] = qs[j] := by
  obtain ⟨hi', e1⟩ := packet_of_own_frame fs hf h1 ps hps i hi
  obtain ⟨hj', e2⟩ := packet_of_own_frame gs hg h2 qs hqs j hj
  refine ⟨hi', hj', ?_⟩
  rw [heq, e2] at e1
  exact (Out.ok.inj e1).symm

end Rtcp.C06
