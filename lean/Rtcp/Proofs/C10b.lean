/-
  C10 (all packet kinds) — "The result [of DestinationSSRC] is the same for a packet built in memory and for the same
  packet after an encode/decode round trip."

  `C10.dest_roundtrip` (Proofs/C10.lean) covers the packets of the old `C02.DWF` domain (SR, RR, SDES, BYE, APP, NACK,
  RRR, PLI, FIR). Here the statement is extended to the domain `C02.DWFAll` of Proofs/C02b.lean: REMB, TWCC, CCFB, XR and
  RawPacket as well, and SR/RR/SDES frames up to the 0xFFFF length field.

  What the decoder returns for a packet `p` of the domain is `C02.quantAll p` (`C02.rt_datagram_all`). The quantisations
  never touch an SSRC:
      RR    zero-pads the profile extension            REMB  rounds the bitrate
      TWCC  rounds the receive deltas                  XR    fills in block type / type-specific / block length
  so `(quantAll p).dest = p.dest` (`quantAll_dest`, for EVERY packet value; `dest_roundtrip_all` is the form with the
  domain hypothesis). The list forms go through `rtcp.Marshal` / `rtcp.Unmarshal` (`uenc` / `udec`).

  SLI is not in `DWFAll` (KF-SLI-PT: a marshalled SLI comes back from rtcp.Unmarshal as a RawPacket, whose
  DestinationSSRC is empty, while the SLI's is `[media]`): `KF_sli_dest_not_preserved` records that the clause is FALSE
  for SLI through the datagram decoder; `sli_dest_roundtrip_own` is the clause through the type's own Unmarshal.
-/
import Rtcp.Proofs.C10
import Rtcp.Proofs.C02b
namespace Rtcp.C10
open Rtcp Gen Out
set_option linter.unusedSimpArgs false
set_option linter.unusedVariables false

theorem remb_quant_ssrcs (v : Remb) : v.quant.ssrcs = v.ssrcs := by
  unfold Remb.quant
  rfl

theorem remb_quant_dest (v : Remb) : (C02.quantAll (.remb v)).dest = (Packet.remb v).dest := by
  have e : C02.quantAll (.remb v) = .remb v.quant := by simp only [C02.quantAll]
  rw [e]
  exact remb_quant_ssrcs v

/-- the documented quantisations leave DestinationSSRC alone, for every packet value of every kind -/
theorem quantAll_dest (p : Packet) : (C02.quantAll p).dest = p.dest := by
  cases p with
  | xr v => exact C18.normalise_dest (.xr v)
  | sr v => rfl | rr v => rfl | sdes v => rfl | bye v => rfl | app v => rfl | nack v => rfl | rrr v => rfl
  | twcc v => rfl | ccfb v => rfl | pli v => rfl | sli v => rfl | fir v => rfl
  | remb v => exact remb_quant_dest v
  | raw b => simp only [C02.quantAll]

/-- **one packet**: what `rtcp.Unmarshal` returns for the marshalled `p` has the DestinationSSRC of `p` -/
theorem dest_roundtrip_all (p : Packet) (h : C02.DWFAll p) : (C02.quantAll p).dest = p.dest := quantAll_dest p

/-- the same with the encode/decode spelled out: the frame of `p`, decoded by the decoder the dispatcher selects for its
header, is a packet with the DestinationSSRC of `p`; and so is the packet `Marshal` leaves behind (`normalise p`) -/
theorem dest_roundtrip_frame (p : Packet) (h : C02.DWFAll p) :
    ∃ f hd q, p.encP = .ok (f, normalise p) ∧ Framed2 f hd ∧ decKind (dispatch hd.type hd.count) f = .ok q ∧
      q.dest = p.dest ∧ (normalise p).dest = p.dest := by
  obtain ⟨f, hd, he, hf, hdec, _, _⟩ := C02.frame_of_DWFAll p h
  exact ⟨f, hd, C02.quantAll p, he, hf, hdec, quantAll_dest p, C18.normalise_dest p⟩

/-- **lists through rtcp.Marshal / rtcp.Unmarshal**: the decoded packets have, one by one and in order, the
DestinationSSRC lists of the packets built in memory -/
theorem dest_roundtrip_list_all (ps : List Packet) (h : ∀ p ∈ ps, C02.DWFAll p) (hne : ps ≠ []) :
    ∃ b qs, uenc ps = .ok b ∧ udec b = .ok qs ∧ qs.map Packet.dest = ps.map Packet.dest := by
  obtain ⟨b, hu, _, hd, _, _⟩ := C02.rt_datagram_all_full ps hne h
  refine ⟨b, ps.map C02.quantAll, hu, hd, ?_⟩
  rw [List.map_map]
  exact List.map_congr_left (fun p _ => quantAll_dest p)

/-- the form of `C10.dest_roundtrip`, on the larger domain -/
theorem dest_roundtrip_bind_all (ps : List Packet) (hne : ps ≠ []) (h : ∀ p ∈ ps, C02.DWFAll p) :
    ∃ qs, (uenc ps >>= udec) = .ok qs ∧ qs.map Packet.dest = ps.map Packet.dest := by
  refine ⟨ps.map C02.quantAll, C02.rt_datagram_all ps hne h, ?_⟩
  rw [List.map_map]
  exact List.map_congr_left (fun p _ => quantAll_dest p)

/-- the compound accessor (`CompoundPacket.DestinationSSRC`: the first member's list) is preserved as well -/
theorem compound_dest_roundtrip_all (ps : List Packet) (h : ∀ p ∈ ps, C02.DWFAll p) (hne : ps ≠ []) :
    ∃ b qs, uenc ps = .ok b ∧ udec b = .ok qs ∧ cdst qs = cdst ps := by
  obtain ⟨b, hu, _, hd, _, _⟩ := C02.rt_datagram_all_full ps hne h
  refine ⟨b, ps.map C02.quantAll, hu, hd, ?_⟩
  cases ps with
  | nil => exact absurd rfl hne
  | cons p ps => exact quantAll_dest p

/-- the old theorem is an instance -/
theorem dest_roundtrip_of_all (ps : List Packet) (hne : ps ≠ []) (h : ∀ p ∈ ps, C02.DWF p) :
    ∃ b qs, uenc ps = .ok b ∧ udec b = .ok qs ∧ qs.map Packet.dest = ps.map Packet.dest :=
  dest_roundtrip_list_all ps (fun p hp => C02.DWFAll_of_DWF p (h p hp)) hne

/-! ### SLI (outside `DWFAll`) -/

/-- through its own Unmarshal an SLI keeps its DestinationSSRC -/
theorem sli_dest_roundtrip_own (p : SliceLossIndication) (h : p.WF) :
    ∃ q, (p.enc >>= SliceLossIndication.dec) = .ok q ∧ q.dest = p.dest :=
  ⟨p, C02.sli_roundtrip_own p h, rfl⟩

/-- KF-SLI-PT, seen from C10: through rtcp.Marshal / rtcp.Unmarshal the clause FAILS for SLI. A well-formed SLI has
DestinationSSRC `[2]`; the datagram decoder returns its encoding as a RawPacket, whose DestinationSSRC is `[]`. -/
theorem KF_sli_dest_not_preserved :
    ∃ (p : SliceLossIndication) (b : Bytes) (qs : List Packet), p.WF ∧ uenc [.sli p] = .ok b ∧ udec b = .ok qs ∧
      qs.map Packet.dest ≠ [Packet.sli p].map Packet.dest :=
  ⟨SliceLossIndication.mk 1 2 [⟨3, 4, 5⟩], [130, 205, 0, 3, 0, 0, 0, 1, 0, 0, 0, 2, 0, 24, 1, 5],
    [.raw [130, 205, 0, 3, 0, 0, 0, 1, 0, 0, 0, 2, 0, 24, 1, 5]], by decide, by decide, by decide, by decide⟩

/-! ### non-vacuity -/

/-- the mixed list of C02b (SR, RR, SDES, REMB, TWCC, raw, CCFB, XR, raw, BYE) meets the hypotheses -/
example : ∃ b qs, uenc C02.exList = .ok b ∧ udec b = .ok qs ∧ qs.map Packet.dest = C02.exList.map Packet.dest :=
  dest_roundtrip_list_all C02.exList C02.exList_DWFAll (by simp [C02.exList])

/-- the lists in question are not trivial, and the quantised packets really differ from the originals -/
example : (Packet.remb C02.exREMB).dest = [2, 4294967295] ∧ (Packet.twcc C02.exTWCC).dest = [C02.exTWCC.media] ∧
    (Packet.ccfb C02.exCCFB).dest = [2, 7, 8] ∧ (Packet.sr C02.exSR).dest = [2, 1] ∧
    C02.quantAll (.remb C02.exREMB) ≠ .remb C02.exREMB ∧ C02.quantAll (.twcc C02.exTWCC) ≠ .twcc C02.exTWCC := by decide

/-- XR: Marshal changes the block headers (so `quantAll` is not the identity) and the DestinationSSRC is non-empty -/
example : C02.quantAll (.xr XRW.exXR) ≠ .xr XRW.exXR ∧ (Packet.xr XRW.exXR).dest ≠ [] := by decide

end Rtcp.C10
