/-
  C15b — the C15 block-header clauses with NO well-formedness premise.

  Proofs/C15.lean proves "every block of a marshalled extended report carries its registered block type, a block length
  equal to its size in 32-bit words minus one, and its type-specific bits in the RFC 3611 positions" under `BlockWF b`.
  "A marshalled extended report" only means that Marshal SUCCEEDED. Here everything is derived from
  `x.enc = .ok (b, x')` alone (as Proofs/C05d.lean did for C05):

    `marshalled_eq`                 the returned packet is the argument with `setupBlockHeader` run on every block
    `marshalled_block_headers`      header scalars of every returned block: registered type / size in words − 1 (mod 2^16) /
                                    type-specific octet computed from the omitted fields; nothing else differs
    `marshalled_block_headers_rfc`  the same, spelled out per block type (T, L/D/J, TTL/hop-limit kind, opaque blocks)
    `marshalled_bytes_tile`         body = concatenation of the blocks' encodings, block i has `wireSize` octets
    `marshalled_block_length_exact` 4·(BL+1) = size, under `size % 4 = 0` and `size ≤ 262144`; both shown necessary
                                    (`block_length_needs_aligned` — KF-XR-ALIGN, `block_length_needs_fit`)
    `marshalled_first_octets`       what a peer reads at the offset of block i: [BT, TS, BL hi, BL lo]
    `marshalled_first_octets_get`   the same through the model's getters

  What makes this possible: the reflective writer, when it succeeds, writes exactly `itemsBytesL` (`writeItems_eq`) — the
  bytes function C15 uses for well-formed blocks — for every layout whose slice comes last (`layouts_sliceLast`, re-proved
  against the regenerated layouts on every run). Out-of-range scalars are truncated by the writer (`byte`, `be16` …), so
  the octets are the fields modulo their width.
-/
import Rtcp.Proofs.C05d
import Rtcp.Proofs.C15
namespace Rtcp.C15
open Rtcp Gen Out
set_option linter.unusedSimpArgs false
set_option linter.unusedVariables false

/-! ### the writer writes `itemsBytesL` whenever it succeeds -/

/-- a slice member, if any, is the last item of the layout (true of the generated layouts: `layouts_sliceLast`) -/
def sliceLast : List Item → Bool
  | [] => true
  | .scalar _ _ :: is => sliceLast is
  | .skip _ :: is => sliceLast is
  | .omitted _ :: is => sliceLast is
  | .sliceOf _ _ :: is => is.isEmpty
  | .blocks _ :: is => sliceLast is
  | .bad _ :: is => sliceLast is

theorem layouts_sliceLast : ∀ k, sliceLast (layoutOf k).items = true := by
  intro k
  unfold layoutOf
  split <;> decide

theorem writeElem_eq (ws vs : List Nat) (b : Bytes) (e : writeElem ws vs = .ok b) : b = elemBytes ws vs := by
  induction ws generalizing vs b with
  | nil => unfold writeElem at e; cases e; cases vs <;> rfl
  | cons w ws ih =>
    cases vs with
    | nil => simp [writeElem] at e
    | cons v vs =>
      simp only [writeElem] at e
      obtain ⟨rest, hr, e⟩ := bind_eq_ok.mp e
      cases e
      rw [ih vs rest hr]
      rfl

theorem writeElems_eq (ws : List Nat) (es : List (List Nat)) (b : Bytes) (e : writeElems ws es = .ok b) :
    b = elemsBytes ws es := by
  induction es generalizing b with
  | nil => cases e; rfl
  | cons x es ih =>
    unfold writeElems at e
    obtain ⟨a, ha, e⟩ := bind_eq_ok.mp e
    obtain ⟨rest, hr, e⟩ := bind_eq_ok.mp e
    cases e
    rw [writeElem_eq ws x a ha, ih rest hr]
    simp [elemsBytes]

/-- **whenever `packetBuffer.write` succeeds, what it wrote is `itemsBytesL`** — no shape or range premise -/
theorem writeItems_eq (items : List Item) (vs : List Nat) (es : List (List Nat)) (b : Bytes)
    (hs : sliceLast items = true) (e : writeItems items vs es = .ok b) : b = itemsBytesL items vs es := by
  induction items generalizing vs b with
  | nil => simp only [writeItems] at e; cases e; simp [itemsBytesL]
  | cons it is ih =>
    cases it with
    | scalar n w =>
      simp only [sliceLast] at hs
      cases vs with
      | nil => simp [writeItems] at e
      | cons v vs =>
        simp only [writeItems] at e
        obtain ⟨rest, hr, e⟩ := bind_eq_ok.mp e
        cases e
        rw [ih vs rest hs hr]
        simp [itemsBytesL]
    | skip w =>
      simp only [sliceLast] at hs
      simp only [writeItems] at e
      obtain ⟨rest, hr, e⟩ := bind_eq_ok.mp e
      cases e
      rw [ih vs rest hs hr]
      simp [itemsBytesL]
    | omitted n =>
      simp only [sliceLast] at hs
      simp only [writeItems] at e
      rw [ih vs b hs e]
      simp [itemsBytesL]
    | sliceOf n ws =>
      simp only [sliceLast, List.isEmpty_iff] at hs
      subst hs
      simp only [writeItems] at e
      obtain ⟨a, ha, e⟩ := bind_eq_ok.mp e
      obtain ⟨rest, hr, e⟩ := bind_eq_ok.mp e
      cases hr
      cases e
      rw [writeElems_eq ws es a ha]
      simp [itemsBytesL]
    | blocks n => simp [writeItems] at e
    | bad n => simp [writeItems] at e

/-! ### one block, as it stands (header scalars as stored) -/

/-- the octets of a block whose header scalars are already filled in (`blockBytes b = wireBytes b.setup`) -/
def wireBytes (b : XRBlock) : Bytes := itemsBytesL (layoutOf b.kind).items b.scalars b.elems

theorem blockBytes_eq_wireBytes (b : XRBlock) : blockBytes b = wireBytes b.setup := rfl

theorem XRBlock.enc_eq {blk : XRBlock} {a : Bytes} (e : blk.enc = .ok a) : a = wireBytes blk :=
  writeItems_eq _ _ _ _ (layouts_sliceLast blk.kind) e

theorem XRBlock.enc_ok_length {blk : XRBlock} {a : Bytes} (e : blk.enc = .ok a) : (wireBytes blk).length = blk.wireSize := by
  rw [← XRBlock.enc_eq e]; exact C05.XRBlock.enc_length e

/-- a block's octets start with its three header scalars, each truncated to its width -/
theorem wireBytes_hdr (blk : XRBlock) : ∃ body, wireBytes blk = [byte blk.bt, byte blk.ts] ++ be16 blk.bl ++ body := by
  obtain ⟨n1, n2, n3, rest, hl⟩ := layout_hdr blk.kind
  refine ⟨itemsBytesL rest blk.vals blk.elems, ?_⟩
  simp [wireBytes, hl, XRBlock.scalars, itemsBytesL, writeScalar]

theorem encXRBlocks_parts (l : List XRBlock) (b : Bytes) (e : encXRBlocks l = .ok b) :
    b = (l.map wireBytes).flatten ∧ ∀ blk ∈ l, blk.enc = .ok (wireBytes blk) := by
  induction l generalizing b with
  | nil => cases e; exact ⟨rfl, by simp⟩
  | cons r rs ih =>
    unfold encXRBlocks at e
    obtain ⟨a, ha, e⟩ := bind_eq_ok.mp e
    obtain ⟨rest, hr, e⟩ := bind_eq_ok.mp e
    cases e
    obtain ⟨h1, h2⟩ := ih rest hr
    have ha' := XRBlock.enc_eq ha
    refine ⟨by simp [h1, ha'], ?_⟩
    intro blk hb
    rcases List.mem_cons.mp hb with rfl | hb
    · rw [← ha']; exact ha
    · exact h2 blk hb

/-! ### the whole packet -/

/-- what `ExtendedReport.Marshal` did, read off its success -/
theorem enc_unfold (x : XR) (b : Bytes) (x' : XR) (h : x.enc = .ok (b, x')) :
    x' = { x with blocks := x.blocks.map XRBlock.setup } ∧
    ∃ hd bs, hd.length = 4 ∧ encXRBlocks (x.blocks.map XRBlock.setup) = .ok bs ∧ b = hd ++ be32 x.sender ++ bs := by
  unfold XR.enc at h
  dsimp only at h
  obtain ⟨hd, hh, h⟩ := bind_eq_ok.mp h
  obtain ⟨bs, hb, h⟩ := bind_eq_ok.mp h
  cases h
  exact ⟨rfl, hd, bs, C05.Header.enc_length hh, hb, rfl⟩

/-- conversely: Marshal succeeds as soon as the blocks' writes do (the header of an XR never fails) -/
theorem enc_ok_of_blocks (x : XR) (bs : Bytes) (hb : encXRBlocks (x.blocks.map XRBlock.setup) = .ok bs) :
    x.enc = .ok (({ type := TypeExtendedReport, length := (x.wireSize / 4) % 65536 } : Header).bytes ++ be32 x.sender ++ bs,
                 { x with blocks := x.blocks.map XRBlock.setup }) := by
  unfold XR.enc
  dsimp only
  rw [C05.XR.setup_wireSize, Header.enc_ok _ (by simp), bind_ok, hb, bind_ok]
  rfl

/-- the packet Marshal hands back is the argument with `setupBlockHeader` run on every block -/
theorem marshalled_eq (x : XR) (b : Bytes) (x' : XR) (h : x.enc = .ok (b, x')) :
    x' = { x with blocks := x.blocks.map XRBlock.setup } := (enc_unfold x b x' h).1

theorem marshalled_length (x : XR) (b : Bytes) (x' : XR) (h : x.enc = .ok (b, x')) :
    x'.blocks.length = x.blocks.length := by
  rw [marshalled_eq x b x' h]; simp

theorem marshalled_getElem (x : XR) (b : Bytes) (x' : XR) (h : x.enc = .ok (b, x')) (i : Nat) (hi : i < x.blocks.length) :
    x'.blocks[i]'(by rw [marshalled_length x b x' h]; exact hi) = (x.blocks[i]).setup := by
  have := marshalled_eq x b x' h
  subst this
  simp

/-- **1. block headers of a marshalled report, for every value**: after a successful Marshal the returned packet has as
many blocks as the argument, and block `i` differs from the argument's block `i` in its three header scalars only, which
are: the registered block type (`setupBt`: the kind for kinds 1–7, the block's own type for an opaque block), the size in
32-bit words minus one modulo 2^16, and the type-specific octet computed from the omitted fields (`setupTs`,
spelled out in `type_specific_bits` / `marshalled_block_headers_rfc`). -/
theorem marshalled_block_headers (x : XR) (b : Bytes) (x' : XR) (h : x.enc = .ok (b, x')) :
    x'.sender = x.sender ∧ x'.blocks.length = x.blocks.length ∧
    ∀ i (hi : i < x.blocks.length),
      let blk := x.blocks[i]
      let blk' := x'.blocks[i]'(by rw [marshalled_length x b x' h]; exact hi)
      blk'.bt = blk.setupBt ∧
      blk'.bl = (blk.wireSize / 4 - 1) % 65536 ∧
      blk'.ts = blk.setupTs ∧
      blk'.kind = blk.kind ∧ blk'.omits = blk.omits ∧ blk'.vals = blk.vals ∧ blk'.elems = blk.elems := by
  refine ⟨by rw [marshalled_eq x b x' h], marshalled_length x b x' h, ?_⟩
  intro i hi
  dsimp only
  rw [marshalled_getElem x b x' h i hi]
  have h4 := wireSize_ge4 x.blocks[i]
  refine ⟨rfl, ?_, rfl, rfl, rfl, rfl, rfl⟩
  show (x.blocks[i].wireSize / 4 + 65535) % 65536 = _
  omega

/-- **1, per block type** (RFC 3611 §4.1–4.7): registered types carry their type number; RLE / receipt-time blocks the
thinning `T` in the low nibble; the statistics summary its L/D/J flags at 0x80/0x40/0x20 and the TTL/hop-limit kind at
bits 3–4; reference-time, DLRR and VoIP blocks a zero octet; opaque blocks keep their own type and type-specific octet. -/
theorem marshalled_block_headers_rfc (x : XR) (b : Bytes) (x' : XR) (h : x.enc = .ok (b, x')) (i : Nat) (hi : i < x.blocks.length) :
    let blk := x.blocks[i]
    let blk' := x'.blocks[i]'(by rw [marshalled_length x b x' h]; exact hi)
    (1 ≤ blk.kind ∧ blk.kind ≤ 7 → blk'.bt = blk.kind) ∧
    (blk.kind = 1 ∨ blk.kind = 2 ∨ blk.kind = 3 → blk'.ts = blk.omits.headD 0 % 16) ∧
    (blk.kind = 6 → blk'.ts = (if blk.omits.getD 0 0 ≠ 0 then 128 else 0) + (if blk.omits.getD 1 0 ≠ 0 then 64 else 0) +
                               (if blk.omits.getD 2 0 ≠ 0 then 32 else 0) + (blk.omits.getD 3 0 % 4) * 8) ∧
    (blk.kind = 4 ∨ blk.kind = 5 ∨ blk.kind = 7 → blk'.ts = 0) ∧
    (¬ (1 ≤ blk.kind ∧ blk.kind ≤ 7) → blk'.bt = blk.bt ∧ blk'.ts = blk.ts ∧ blk'.elems = blk.elems) := by
  dsimp only
  rw [marshalled_getElem x b x' h i hi]
  obtain ⟨t1, t2, t3⟩ := type_specific_bits x.blocks[i]
  refine ⟨?_, t1, t2, t3, ?_⟩
  · intro hk; show x.blocks[i].setupBt = _; simp [XRBlock.setupBt, hk]
  · intro hk
    refine ⟨by show x.blocks[i].setupBt = _; simp [XRBlock.setupBt, hk], ?_, rfl⟩
    show x.blocks[i].setupTs = _
    unfold XRBlock.setupTs
    split <;> first | rfl | omega

/-- **2. the body is the blocks' encodings laid end to end**, block `i` occupying exactly its `wireSize` octets — so a
reader that trusts the sizes finds block `i+1` right behind block `i`. Also: every block's own `write` succeeded with
those octets, and (through `blockBytes`) the body is C15's `blocksBytes` of the argument. -/
theorem marshalled_bytes_tile (x : XR) (b : Bytes) (x' : XR) (h : x.enc = .ok (b, x')) :
    b.drop 8 = (x'.blocks.map wireBytes).flatten ∧
    b.drop 8 = blocksBytes x.blocks ∧
    (∀ i (hi : i < x.blocks.length),
      (wireBytes (x'.blocks[i]'(by rw [marshalled_length x b x' h]; exact hi))).length = x.blocks[i].wireSize) ∧
    (∀ blk' ∈ x'.blocks, blk'.enc = .ok (wireBytes blk')) := by
  obtain ⟨hx, hd, bs, hl, hb, rfl⟩ := enc_unfold x b x' h
  obtain ⟨h1, h2⟩ := encXRBlocks_parts _ _ hb
  have hdrop : (hd ++ be32 x.sender ++ bs).drop 8 = bs := drop_of_length_eq (by simp [hl])
  subst hx
  refine ⟨by rw [hdrop, h1], ?_, ?_, h2⟩
  · rw [hdrop, h1, List.map_map]; rfl
  · intro i hi
    simp only [List.getElem_map]
    exact XRBlock.enc_ok_length (h2 _ (List.mem_map.mpr ⟨_, List.getElem_mem hi, rfl⟩))

/-- **3. block length = size in 32-bit words minus one, exactly**, for a block whose size is a multiple of four and at
most 2^18 octets (the two premises are necessary: `block_length_needs_aligned`, `block_length_needs_fit`) -/
theorem marshalled_block_length_exact (x : XR) (b : Bytes) (x' : XR) (h : x.enc = .ok (b, x')) (i : Nat) (hi : i < x.blocks.length)
    (h4 : x.blocks[i].wireSize % 4 = 0) (hfit : x.blocks[i].wireSize ≤ 262144) :
    4 * ((x'.blocks[i]'(by rw [marshalled_length x b x' h]; exact hi)).bl + 1) = x.blocks[i].wireSize := by
  have := ((marshalled_block_headers x b x' h).2.2 i hi).2.1
  rw [this]
  have := wireSize_ge4 x.blocks[i]
  omega

/-- the alignment premise is necessary (KF-XR-ALIGN): a loss-RLE block with one chunk marshals to 14 octets with block
length 2, i.e. "12 octets" -/
theorem block_length_needs_aligned :
    ∃ b x', C05.exXR.enc = .ok (b, x') ∧ C05.exXR.blocks[0].wireSize = 14 ∧ x'.blocks[0]!.bl = 2 ∧
      4 * (x'.blocks[0]!.bl + 1) ≠ C05.exXR.blocks[0].wireSize :=
  ⟨[128, 207, 0, 4, 0, 0, 0, 1, 1, 0, 0, 2, 0, 0, 0, 7, 0, 1, 0, 2, 0, 5],
   { sender := 1, blocks := [{ kind := 1, bt := 1, ts := 0, bl := 2, vals := [7, 1, 2], elems := [[5]] }] },
   by decide, by decide, by decide, by decide⟩

/-- an opaque block of type 200 with `n` content octets -/
def bigBlock (n : Nat) : XRBlock := { kind := 0, bt := 200, elems := List.replicate n [0] }

theorem bigBlock_wireSize (n : Nat) : (bigBlock n).wireSize = 4 + n := by
  simp [bigBlock, XRBlock.wireSize, layoutOf, layout0, sizeItems, elemSize]; omega

theorem bigBlock_enc (n : Nat) : ∃ b x', ({ sender := 0, blocks := [bigBlock n] } : XR).enc = .ok (b, x') := by
  have hsh : itemsOK (layoutOf (bigBlock n).kind).items (bigBlock n).setup.scalars (bigBlock n).elems := by
    have hb : ((bigBlock n).wireSize / 4 + 65535) % 65536 < 65536 := by omega
    simp only [bigBlock] at hb ⊢
    simp [itemsOK, layoutOf, layout0, XRBlock.scalars, XRBlock.setup, XRBlock.setupBt, XRBlock.setupTs, widthOK, fits, elemOK]
    exact hb
  have he : (bigBlock n).setup.enc = .ok (blockBytes (bigBlock n)) := writeItems_ok _ _ _ hsh
  refine ⟨_, _, enc_ok_of_blocks _ (blockBytes (bigBlock n) ++ []) ?_⟩
  simp only [List.map_cons, List.map_nil, encXRBlocks]
  rw [he, bind_ok, bind_ok]
  rfl

/-- the fit premise is necessary: an opaque block with 2^18 content octets (262148 on the wire, a multiple of four)
marshals, and its block length field is 0, i.e. "4 octets" -/
theorem block_length_needs_fit :
    ∃ (x : XR) (b : Bytes) (x' : XR) (h : x.enc = .ok (b, x')) (hi : 0 < x.blocks.length),
      x.blocks[0].wireSize % 4 = 0 ∧ x.blocks[0].wireSize = 262148 ∧
      (x'.blocks[0]'(by rw [marshalled_length x b x' h]; exact hi)).bl = 0 ∧
      4 * ((x'.blocks[0]'(by rw [marshalled_length x b x' h]; exact hi)).bl + 1) ≠ x.blocks[0].wireSize := by
  obtain ⟨b, x', h⟩ := bigBlock_enc 262144
  refine ⟨_, b, x', h, by simp, ?_⟩
  have hb := ((marshalled_block_headers _ b x' h).2.2 0 (by simp)).2.1
  have hw := bigBlock_wireSize 262144
  simp only [List.getElem_cons_zero] at hb ⊢
  rw [hb, hw]
  omega

/-! ### what a peer reads -/

theorem drop_flatten_take {α : Type} (L : List (List α)) (i : Nat) :
    L.flatten.drop (((L.take i).map List.length).sum) = (L.drop i).flatten := by
  induction L generalizing i with
  | nil => simp
  | cons a L ih =>
    cases i with
    | zero => simp
    | succ i =>
      simp only [List.take_succ_cons, List.map_cons, List.sum_cons, List.flatten_cons, List.drop_succ_cons]
      rw [← List.drop_drop, List.drop_left, ih]

/-- offset of block `i` in the packet: common header, sender SSRC, the blocks before it -/
def blockOffset (x : XR) (i : Nat) : Nat := 8 + ((x.blocks.take i).map XRBlock.wireSize).sum

theorem marshalled_lengths (x : XR) (b : Bytes) (x' : XR) (h : x.enc = .ok (b, x')) :
    (x'.blocks.map wireBytes).map List.length = x.blocks.map XRBlock.wireSize := by
  obtain ⟨_, _, _, h2⟩ := marshalled_bytes_tile x b x' h
  have hx := marshalled_eq x b x' h
  subst hx
  simp only [List.map_map]
  apply List.map_congr_left
  intro blk hb
  exact XRBlock.enc_ok_length (h2 _ (by simp; exact ⟨blk, hb, rfl⟩))

/-- **4. the four octets at the offset of block `i`** are the block type, the type-specific octet and the block length
(big endian) of the returned packet's block `i` — each truncated to its width, which changes nothing for registered
kinds (`marshalled_first_octets_get`) -/
theorem marshalled_first_octets (x : XR) (b : Bytes) (x' : XR) (h : x.enc = .ok (b, x')) (i : Nat) (hi : i < x.blocks.length) :
    let blk' := x'.blocks[i]'(by rw [marshalled_length x b x' h]; exact hi)
    (b.drop (blockOffset x i)).take 4 = [byte blk'.bt, byte blk'.ts] ++ be16 blk'.bl := by
  dsimp only
  have hi' : i < x'.blocks.length := by rw [marshalled_length x b x' h]; exact hi
  obtain ⟨ht, _, _, _⟩ := marshalled_bytes_tile x b x' h
  have hl := marshalled_lengths x b x' h
  have hoff : b.drop (blockOffset x i) = ((x'.blocks.map wireBytes).drop i).flatten := by
    unfold blockOffset
    rw [← List.drop_drop, ht, List.map_take, ← hl, ← List.map_take]
    exact drop_flatten_take _ i
  rw [hoff, List.drop_eq_getElem_cons (by simpa using hi'), List.flatten_cons, List.getElem_map]
  obtain ⟨body, hb⟩ := wireBytes_hdr (x'.blocks[i])
  rw [hb]
  simp [be16]

/-- 4 through the getters a decoder uses: type octet, type-specific octet, 16-bit block length. For registered kinds the
type octet is the kind itself and the type-specific octet is `setupTs` itself (both below 256). -/
theorem marshalled_first_octets_get (x : XR) (b : Bytes) (x' : XR) (h : x.enc = .ok (b, x')) (i : Nat) (hi : i < x.blocks.length) :
    let blk := x.blocks[i]
    let o := blockOffset x i
    get8 b o = blk.setupBt % 256 ∧ get8 b (o + 1) = blk.setupTs % 256 ∧
    get16 b (o + 2) = (blk.wireSize / 4 - 1) % 65536 ∧
    (1 ≤ blk.kind ∧ blk.kind ≤ 7 → get8 b o = blk.kind ∧ get8 b (o + 1) = blk.setupTs) := by
  dsimp only
  have hf := marshalled_first_octets x b x' h i hi
  obtain ⟨e1, e2, e3, _⟩ := (marshalled_block_headers x b x' h).2.2 i hi
  dsimp only at hf e1 e2 e3
  rw [e1, e2, e3] at hf
  generalize blockOffset x i = o at hf ⊢
  generalize hbl : (x.blocks[i].wireSize / 4 - 1) % 65536 = bl at hf
  have hblt : bl < 65536 := by omega
  -- read the four octets out of `hf`
  have hg : ∀ k, k < 4 → (b.drop o).getD k 0 = ([byte x.blocks[i].setupBt, byte x.blocks[i].setupTs] ++ be16 bl).getD k 0 := by
    intro k hk
    rw [← hf]
    simp only [List.getD_eq_getElem?_getD, List.getElem?_take, if_pos hk]
  have g0 := hg 0 (by omega)
  have g1 := hg 1 (by omega)
  have g2 := hg 2 (by omega)
  have g3 := hg 3 (by omega)
  simp only [List.getD_eq_getElem?_getD, List.getElem?_drop, be16, List.cons_append, List.nil_append,
    List.getElem?_cons_zero, List.getElem?_cons_succ, Option.getD_some] at g0 g1 g2 g3
  have r0 : get8 b o = x.blocks[i].setupBt % 256 := by
    simp only [get8, List.getD_eq_getElem?_getD]; rw [show o = o + 0 from rfl, g0]; simp [byte]
  have r1 : get8 b (o + 1) = x.blocks[i].setupTs % 256 := by
    simp only [get8, List.getD_eq_getElem?_getD]; rw [g1]; simp [byte]
  have r2 : get16 b (o + 2) = bl := by
    simp only [get16, get8, List.getD_eq_getElem?_getD]
    rw [g2, show o + 2 + 1 = o + 3 from rfl, g3]
    simp [byte]; omega
  refine ⟨r0, r1, r2, ?_⟩
  intro hk
  have hbt : x.blocks[i].setupBt = x.blocks[i].kind := by simp [XRBlock.setupBt, hk]
  have hts : x.blocks[i].setupTs < 256 := by
    obtain ⟨t1, t2, t3⟩ := type_specific_bits x.blocks[i]
    have hc : (x.blocks[i].kind = 1 ∨ x.blocks[i].kind = 2 ∨ x.blocks[i].kind = 3) ∨ x.blocks[i].kind = 6 ∨
        (x.blocks[i].kind = 4 ∨ x.blocks[i].kind = 5 ∨ x.blocks[i].kind = 7) := by omega
    rcases hc with hc | hc | hc
    · rw [t1 hc]; omega
    · rw [t2 hc]; split <;> split <;> split <;> omega
    · rw [t3 hc]; omega
  rw [r0, r1, hbt]
  constructor <;> omega

/-- the peer's type dispatch (`xrKindOfType` of the octet at the block's offset) selects the Go type of the block's kind,
for every registered kind — no premise on the fields -/
theorem marshalled_kind_read (x : XR) (b : Bytes) (x' : XR) (h : x.enc = .ok (b, x')) (i : Nat) (hi : i < x.blocks.length)
    (hk : 1 ≤ x.blocks[i].kind ∧ x.blocks[i].kind ≤ 7) : xrKindOfType (get8 b (blockOffset x i)) = x.blocks[i].kind := by
  have := ((marshalled_first_octets_get x b x' h i hi).2.2.2 hk).1
  rw [this]
  simp [xrKindOfType, hk]

/-! ### 5. instances on reports that are NOT well formed but marshal -/

/-- a loss-RLE block with thinning 300 (does not fit the 4-bit field) and an odd number of chunks -/
def exT : XR := { sender := 9, blocks := [{ kind := 1, omits := [300], vals := [7, 1, 2], elems := [[5]] },
                                           { kind := 0, bt := 300, ts := 513, elems := [[1], [2]] }] }

theorem exT_enc : exT.enc = .ok
    ([128, 207, 0, 6, 0, 0, 0, 9, 1, 12, 0, 2, 0, 0, 0, 7, 0, 1, 0, 2, 0, 5, 44, 1, 0, 0, 1, 2],
     { sender := 9, blocks := [{ kind := 1, bt := 1, ts := 12, bl := 2, omits := [300], vals := [7, 1, 2], elems := [[5]] },
                               { kind := 0, bt := 300, ts := 513, bl := 0, elems := [[1], [2]] }] }) := by decide

theorem exT_not_wf : ¬ BlockWF exT.blocks[0] ∧ ¬ BlockWF exT.blocks[1] :=
  ⟨fun h => absurd h.aligned (by decide), fun h => absurd h.aligned (by decide)⟩

/-- theorem 1 on `exT`: whatever Marshal returned, block 0 has type 1, type-specific 300 % 16 = 12, length (14/4 − 1) = 2;
the opaque block 1 keeps type 300 and octet 513 (written as 44 and 1) -/
example (b : Bytes) (x' : XR) (h : exT.enc = .ok (b, x')) :
    x'.blocks.length = 2 ∧ x'.blocks[0]!.bt = 1 ∧ x'.blocks[0]!.ts = 12 ∧ x'.blocks[0]!.bl = 2 ∧
    x'.blocks[1]!.bt = 300 ∧ x'.blocks[1]!.ts = 513 ∧ x'.blocks[1]!.bl = 0 := by
  obtain ⟨_, hl, hb⟩ := marshalled_block_headers exT b x' h
  have hl2 : x'.blocks.length = 2 := hl
  have h0 := hb 0 (by decide)
  have h1 := hb 1 (by decide)
  dsimp only at h0 h1
  have e0 : x'.blocks[0]! = x'.blocks[0]'(by omega) := by simp [getElem!_pos, hl2]
  have e1 : x'.blocks[1]! = x'.blocks[1]'(by omega) := by simp [getElem!_pos, hl2]
  rw [e0, e1, h0.1, h0.2.1, h0.2.2.1, h1.1, h1.2.1, h1.2.2.1]
  exact ⟨hl2, by decide, by decide, by decide, by decide, by decide, by decide⟩

/-- theorem 1 on C05d's `exXR` (one chunk: 14 octets, not a multiple of four) -/
example (b : Bytes) (x' : XR) (h : C05.exXR.enc = .ok (b, x')) (hi : 0 < x'.blocks.length) :
    x'.blocks[0].bt = 1 ∧ x'.blocks[0].ts = 0 ∧ x'.blocks[0].bl = 2 := by
  have h0 := (marshalled_block_headers C05.exXR b x' h).2.2 0 (by decide)
  dsimp only at h0
  rw [h0.1, h0.2.1, h0.2.2.1]
  exact ⟨by decide, by decide, by decide⟩

/-- theorems 2 and 4 on `exT`: block 1 sits at offset 8 + 14 = 22 and its first octets are 300 % 256, 513 % 256, 0, 0 -/
example : blockOffset exT 1 = 22 ∧
    ((([128, 207, 0, 6, 0, 0, 0, 9, 1, 12, 0, 2, 0, 0, 0, 7, 0, 1, 0, 2, 0, 5, 44, 1, 0, 0, 1, 2] : Bytes).drop 22).take 4
      = [44, 1, 0, 0]) := by decide

end Rtcp.C15
