/-
  C06 — datagram decoding splits at length fields, is local, and is all-or-nothing.
  A *frame* is a byte string that starts with a version-2 header whose length field equals its size in words − 1
  (`Framed`). In the model a decoder only ever receives its own frame (capacity = length), so locality is by
  construction here; against the Go code (cap > len) it is tied by the `udecp` correspondence (DESIGN §6 C06).
-/
import Rtcp.Lemmas.Dgram
namespace Rtcp.C06
open Rtcp Gen Out
set_option linter.unusedSimpArgs false
set_option linter.unusedVariables false

def IsFrame (f : Bytes) : Prop := ∃ h, Framed f h

/-- what one frame decodes to, as a function of that frame alone -/
def decFrame (f : Bytes) : Out Packet := decKind (dispatch (get8 f 1) (get8 f 0 % 32)) f

/-- frame by frame, in order, first failure wins -/
def decFrames : List Bytes → Out (List Packet)
  | [] => .ok []
  | f :: fs => do
    let p ← decFrame f
    let ps ← decFrames fs
    pure (p :: ps)

theorem framed_hdr {f : Bytes} {h : Header} (hf : Framed f h) : h.type = get8 f 1 ∧ h.count = get8 f 0 % 32 := by
  obtain ⟨⟨body, hb⟩, hc, ht, hl, hs⟩ := hf
  have hd := Header.dec_bytes h body hc ht (by omega)
  rw [← hb] at hd
  have := Header.dec_ok_fields hd
  exact ⟨this.2.2.2.2.1, this.2.2.2.2.2⟩

theorem loop_frames (fs : List Bytes) (tail : Bytes) (h : ∀ f ∈ fs, IsFrame f) (gas : Nat) :
    unmarshalLoop (gas + fs.length) (fs.flatten ++ tail) =
      (decFrames fs >>= fun ps => unmarshalLoop gas tail >>= fun qs => .ok (ps ++ qs)) := by
  induction fs with
  | nil =>
    simp only [List.length_nil, Nat.add_zero, List.flatten_nil, List.nil_append, decFrames, bind_ok]
    cases unmarshalLoop gas tail <;> rfl
  | cons f fs ih =>
    obtain ⟨hd, hf⟩ := h f (by simp)
    have hh := framed_hdr hf
    have e : gas + (f :: fs).length = (gas + fs.length) + 1 := by simp; omega
    rw [e, List.flatten_cons, List.append_assoc, unmarshalLoop_cons f _ hd hf, ih (fun g hg => h g (by simp [hg]))]
    simp only [decFrames, decFrame, hh.1, hh.2]
    cases decKind (dispatch (get8 f 1) (get8 f 0 % 32)) f with
    | ok p =>
      simp only [bind_ok]
      cases decFrames fs with
      | ok ps =>
        simp only [bind_ok, pure_eq]
        cases unmarshalLoop gas tail <;> rfl
      | err => rfl
      | panic => rfl
      | diverge => rfl
    | err => rfl
    | panic => rfl
    | diverge => rfl

theorem flatten_len (fs : List Bytes) (h : ∀ f ∈ fs, IsFrame f) : fs.length * 4 ≤ fs.flatten.length := by
  induction fs with
  | nil => simp
  | cons f fs ih =>
    obtain ⟨hd, hf⟩ := h f (by simp)
    have h1 := hf.size
    have h2 := ih (fun g hg => h g (by simp [hg]))
    rw [List.flatten_cons, List.length_append, List.length_cons]
    omega

/-- **one packet per frame, in order, each depending only on its own frame** -/
theorem split (fs : List Bytes) (hne : fs ≠ []) (h : ∀ f ∈ fs, IsFrame f) : udec fs.flatten = decFrames fs := by
  have hl := flatten_len fs h
  have hgas : fs.flatten.length + 1 = (fs.flatten.length + 1 - fs.length) + fs.length := by omega
  have := loop_frames fs [] h (fs.flatten.length + 1 - fs.length)
  rw [List.append_nil, ← hgas] at this
  unfold udec
  rw [this]
  have hg1 : unmarshalLoop (fs.flatten.length + 1 - fs.length) [] = .ok [] := by
    have : fs.flatten.length + 1 - fs.length = (fs.flatten.length - fs.length) + 1 := by omega
    rw [this]; simp [unmarshalLoop]
  rw [hg1]
  cases hd : decFrames fs with
  | ok ps =>
    simp only [bind_ok, List.append_nil]
    have : ps.length ≠ 0 := by
      cases fs with
      | nil => exact absurd rfl hne
      | cons f fs =>
        simp only [decFrames] at hd
        obtain ⟨p, _, hd⟩ := bind_eq_ok.mp hd
        obtain ⟨qs, _, hd⟩ := bind_eq_ok.mp hd
        simp at hd; rw [← hd]; simp
    rw [if_neg this]; rfl
  | err => rfl
  | panic => rfl
  | diverge => rfl

theorem decFrames_append (fa fb : List Bytes) :
    decFrames (fa ++ fb) = (decFrames fa >>= fun x => decFrames fb >>= fun y => .ok (x ++ y)) := by
  induction fa with
  | nil => simp [decFrames]; cases decFrames fb <;> rfl
  | cons f fa ih =>
    simp only [List.cons_append, decFrames, ih]
    cases decFrame f with
    | ok p =>
      simp only [bind_ok]
      cases decFrames fa with
      | ok ps => simp only [bind_ok, pure_eq]; cases decFrames fb <;> rfl
      | err => rfl
      | panic => rfl
      | diverge => rfl
    | err => rfl
    | panic => rfl
    | diverge => rfl

/-- **Unmarshal(a‖b) = Unmarshal(a) followed by Unmarshal(b)** for concatenations of frames -/
theorem concat (fa fb : List Bytes) (ha : fa ≠ []) (hb : fb ≠ []) (h1 : ∀ f ∈ fa, IsFrame f) (h2 : ∀ f ∈ fb, IsFrame f) :
    udec (fa.flatten ++ fb.flatten) = (udec fa.flatten >>= fun x => udec fb.flatten >>= fun y => .ok (x ++ y)) := by
  have e : fa.flatten ++ fb.flatten = (fa ++ fb).flatten := by simp
  rw [e, split (fa ++ fb) (by simp [ha]) (by intro f hf; rcases List.mem_append.mp hf with h | h; exact h1 f h; exact h2 f h),
    split fa ha h1, split fb hb h2, decFrames_append]

/-- **all-or-nothing** -/
theorem empty_rejected : udec [] = .err := by decide

theorem ok_nonempty {b : Bytes} {ps : List Packet} (h : udec b = .ok ps) : ps ≠ [] := by
  unfold udec at h
  obtain ⟨qs, _, h⟩ := bind_eq_ok.mp h
  split at h
  · cases h
  · rename_i hn; simp at h; rw [← h]; intro h0; rw [h0] at hn; simp at hn

/-- a malformed frame anywhere makes the whole datagram fail: no packets are returned -/
theorem malformed_frame_fails (fa fb : List Bytes) (bad : Bytes) (h1 : ∀ f ∈ fa, IsFrame f) (hb : IsFrame bad)
    (h2 : ∀ f ∈ fb, IsFrame f) (hbad : ∀ p, decFrame bad ≠ .ok p) : ∀ ps, udec (fa ++ bad :: fb).flatten ≠ .ok ps := by
  intro ps hps
  rw [split (fa ++ bad :: fb) (by simp) (by
    intro f hf
    rcases List.mem_append.mp hf with h | h
    · exact h1 f h
    · rcases List.mem_cons.mp h with h | h
      · rw [h]; exact hb
      · exact h2 f h), decFrames_append] at hps
  obtain ⟨x, _, hps⟩ := bind_eq_ok.mp hps
  obtain ⟨y, hy, _⟩ := bind_eq_ok.mp hps
  simp only [decFrames] at hy
  obtain ⟨p, hp, _⟩ := bind_eq_ok.mp hy
  exact hbad p hp

/-- trailing octets that do not start a complete frame make the whole datagram fail -/
theorem trailing_fragment_fails (fs : List Bytes) (tail : Bytes) (h : ∀ f ∈ fs, IsFrame f) (ht : tail ≠ [])
    (hbad : ∀ r, unmarshalOne tail ≠ .ok r) : ∀ ps, udec (fs.flatten ++ tail) ≠ .ok ps := by
  intro ps hps
  unfold udec at hps
  obtain ⟨qs, hq, _⟩ := bind_eq_ok.mp hps
  have hl := flatten_len fs h
  have hgas : (fs.flatten ++ tail).length + 1 = ((fs.flatten ++ tail).length + 1 - fs.length) + fs.length := by rw [List.length_append]; omega
  rw [hgas, loop_frames fs tail h] at hq
  obtain ⟨x, _, hq⟩ := bind_eq_ok.mp hq
  obtain ⟨y, hy, _⟩ := bind_eq_ok.mp hq
  have hpos : 0 < (fs.flatten ++ tail).length + 1 - fs.length := by rw [List.length_append]; omega
  obtain ⟨g, hg⟩ : ∃ g, (fs.flatten ++ tail).length + 1 - fs.length = g + 1 := ⟨_, (Nat.succ_pred_eq_of_pos hpos).symm⟩
  rw [hg, unmarshalLoop] at hy
  rw [if_neg (by simp; exact ht)] at hy
  obtain ⟨r, hr, _⟩ := bind_eq_ok.mp hy
  exact hbad r hr

/-- non-vacuity: a PLI frame followed by a raw frame of unknown type -/
example : IsFrame [0x81, 206, 0, 2, 0, 0, 0, 1, 0, 0, 0, 2] :=
  ⟨⟨false, 1, 206, 2⟩, ⟨⟨[0, 0, 0, 1, 0, 0, 0, 2], by decide⟩, by decide, by decide, by decide, by decide⟩⟩

end Rtcp.C06
