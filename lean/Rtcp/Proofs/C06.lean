import Rtcp.Lemmas.Safe6
namespace Rtcp.C06
end Rtcp.C06
