/-
  REMB (ReceiverEstimatedMaximumBitrate, draft-alvestrand-rmcat-remb-03 §2.2) under C02, C03, C04, C05.
  `Remb.WF` (Spec/Remb.lean): SSRCs within 32 bits, at most 255 feedback SSRCs, bitrate a non-negative non-NaN float32
  pattern. `Spec.remb` is the draft's layout with the closed-form exponent/mantissa (`Spec.rembExp`, `Spec.rembMant`:
  least exponent, value rounded down to 18 significant bits, saturating at 0x3FFFF·2^63).
  * C05.remb_framed      Marshal output: length = MarshalSize, word aligned, header = Header(), length field.
  * C03.remb_wire        Marshal = render(draft layout).
  * C04.remb_dec_spec    Unmarshal of the draft layout with ANY exponent < 64 and mantissa 1..2^18−1 (normalised or not)
                         returns the sender, the SSRCs and the float whose value is exactly mantissa·2^exponent.
  * C02.remb_roundtrip   Marshal, Unmarshal (own decoder and rtcp.Unmarshal, same Go type), Marshal again: same octets;
                         the only difference is the documented quantisation of the bitrate.
  Known finding KF-REMB-MANT0 (C14.KF_mantissa_zero): a zero mantissa decodes to 2^(e+23); it is excluded by hypothesis
  (`0 < m`, resp. `Spec.rembMant … ≠ 0`, i.e. bitrate ≥ 1) and exhibited in `C04.KF_remb_mantissa_zero` and
  `C02.KF_remb_zero_bitrate`.
-/
import Rtcp.Lemmas.RembRT
namespace Rtcp.C05
open Rtcp Gen Out
set_option linter.unusedSimpArgs false
set_option linter.unusedVariables false

/-- **REMB Marshal output is well-framed**: its length is MarshalSize(), a multiple of four; the first four octets decode
to Header() (version 2, PT 206, FMT 15) whose length field is the length in words minus one -/
theorem remb_framed (p : Remb) (h : p.WF) :
    ∃ f, p.enc = .ok f ∧ f.length = p.marshalSize ∧ f.length % 4 = 0 ∧ Header.dec f = .ok p.header ∧
      p.header.length = f.length / 4 - 1 := by
  obtain ⟨f, he, hf, hl, _⟩ := Remb.framed p h
  obtain ⟨⟨body, hb⟩, hc, ht, hlen, hs⟩ := hf
  refine ⟨f, he, hl, by omega, ?_, by omega⟩
  rw [hb]; exact Header.dec_bytes p.header body hc ht (by omega)

/-- the values `Header()` reports -/
theorem remb_header (p : Remb) (h : p.WF) :
    p.header.padding = false ∧ p.header.count = 15 ∧ p.header.type = 206 ∧ p.header.length = 4 + p.ssrcs.length := by
  rw [Remb.header_eq p h.2.1]; exact ⟨rfl, rfl, rfl, rfl⟩

example : (Remb.mk 1 0x4b083800 [2, 4294967295]).WF := by decide        -- 8927232 bit/s
example : (Remb.mk 4294967295 0x7f800000 [7, 8, 9]).WF := by decide   -- +∞

end Rtcp.C05

namespace Rtcp.C03
open Rtcp Gen Out Spec
set_option linter.unusedSimpArgs false
set_option linter.unusedVariables false

/-- **REMB Marshal emits exactly the draft's layout**: V=2, P=0, FMT=15, PT=206, length = 4 + n, sender SSRC, media SSRC 0,
'R' 'E' 'M' 'B', Num SSRC | BR Exp (6 bits) | BR Mantissa (18 bits) with the prescribed pair, then the SSRCs -/
theorem remb_wire (p : Remb) (h : p.WF) : p.enc = .ok (render (Spec.remb p)) := by
  obtain ⟨f, he, _, _, hf⟩ := Remb.framed p h
  obtain ⟨h1, h2, h3, h4, h5, h6⟩ := h
  obtain ⟨_, hm, hexp, _⟩ := rembEncBitrate_spec p.bitrate h5
  rw [he, hf, Spec.remb, Spec.rembRaw_render _ _ _ _ h1 (by omega) hm h2 h3]

/-- the prescribed pair, on its own terms: 18-bit mantissa, exponent ≤ 63 and minimal, `m·2^e ≤ value < (m+1)·2^e`
(the bitrate rounded down to 18 significant bits) -/
theorem remb_pair_spec (bits : Nat) :
    rembMant (rembValue bits) < 262144 ∧ rembExp (rembValue bits) ≤ 63 ∧
      (rembExp (rembValue bits) = 0 ∨ 131072 ≤ rembMant (rembValue bits)) ∧
      rembMant (rembValue bits) * 2 ^ rembExp (rembValue bits) ≤ rembValue bits ∧
      rembValue bits < (rembMant (rembValue bits) + 1) * 2 ^ rembExp (rembValue bits) :=
  Spec.rembPair_spec _ (Spec.rembValue_le bits)

/-- saturation: +∞ and everything from 0x3FFFF·2^63 upwards is sent as (0x3FFFF, 63) -/
theorem remb_saturates : rembMant rembMax = 262143 ∧ rembExp rembMax = 63 ∧ rembValue 0x7f800000 = rembMax := by decide

example : render (Spec.remb (Remb.mk 1 0x4b083800 [2])) =
    [143, 206, 0, 5, 0, 0, 0, 1, 0, 0, 0, 0, 82, 69, 77, 66, 1, 26, 32, 224, 0, 0, 0, 2] := by decide

end Rtcp.C03

namespace Rtcp.C04
open Rtcp Gen Out Spec
set_option linter.unusedSimpArgs false
set_option linter.unusedVariables false

/-- **Unmarshal of any valid REMB encoding**: for every 6-bit exponent and every non-zero 18-bit mantissa — normalised
or not — the draft layout decodes to the sender, the SSRC list and the float32 whose value is exactly
`mantissa · 2^exponent` (finite, non-negative); the result is a well-formed value -/
theorem remb_dec_spec (sender e m : Nat) (ssrcs : List Nat) (hs : sender < 4294967296) (he : e < 64) (hm0 : 0 < m)
    (hm : m < 262144) (hn : ssrcs.length ≤ 255) (hl : ∀ s ∈ ssrcs, s < 4294967296) :
    ∃ q, Remb.dec (render (Spec.rembRaw sender e m ssrcs)) = .ok q ∧ q.sender = sender ∧ q.ssrcs = ssrcs ∧
      rembDecBits e m = .ok q.bitrate ∧ f32Floor q.bitrate = m * 2 ^ e ∧
      f32Sign q.bitrate = 0 ∧ f32IsNaN q.bitrate = false ∧ f32IsInf q.bitrate = false ∧ q.WF := by
  obtain ⟨bits, hb, hlt, hfl, hS, hnan, hinf, _⟩ := rembDecBits_facts e m he hm0 hm
  have hdec := Remb.dec_bytes sender e m ssrcs hs he hm hn hl
  rw [hb, bind_ok] at hdec
  rw [Spec.rembRaw_render _ _ _ _ hs he hm hn hl]
  exact ⟨_, hdec, rfl, rfl, hb, hfl, hS, hnan, hinf, hs, hn, hl, hlt, hS, hnan⟩

/-- the decoded bit pattern in closed form: `Spec.rembFloat e m` (sign 0, biased exponent 127 + e + ⌊log2 m⌋,
fraction the mantissa's bits below its leading one) -/
theorem remb_dec_float (e m : Nat) (he : e < 64) (hm0 : 0 < m) (hm : m < 262144) :
    rembDecBits e m = .ok (Spec.rembFloat e m) := rembDecBits_closed e m he hm0 hm

/-- the decoded float32 is the number `m·2^e` itself, not merely a float with that integer part: with exponent field `E`
and fraction `F` its value is `(2^23 + F)·2^(E−150)`, and `(2^23 + F)·2^E = (m·2^e)·2^150` -/
theorem remb_dec_value_exact (e m : Nat) (he : e < 64) (hm0 : 0 < m) (hm : m < 262144) :
    ∃ bits, rembDecBits e m = .ok bits ∧ 0 < f32Exp bits ∧ f32Exp bits < 255 ∧
      (8388608 + f32Frac bits) * 2 ^ f32Exp bits = m * 2 ^ e * 2 ^ 150 := by
  obtain ⟨s, bits, hb, hs, hlo, hhi, hE, hF, hS⟩ := C14.decBits_spec e m he hm0 hm
  refine ⟨bits, hb, by omega, by omega, ?_⟩
  have h1 : 8388608 + f32Frac bits = m * 2 ^ s := by omega
  have h2 : s + f32Exp bits = e + 150 := by omega
  rw [h1, Nat.mul_assoc, Nat.mul_assoc, ← Nat.pow_add, ← Nat.pow_add, h2]

/-- known finding KF-REMB-MANT0, kept visible: an encoding with mantissa 0 (bitrate 0 according to the draft) is accepted
but decodes to `2^(e+23)`: here exponent 5, mantissa 0 gives 2^28 -/
theorem KF_remb_mantissa_zero :
    ∃ q, Remb.dec (render (Spec.rembRaw 1 5 0 [2])) = .ok q ∧ f32Floor q.bitrate = 2 ^ 28 ∧ f32Floor q.bitrate ≠ 0 * 2 ^ 5 :=
  ⟨{ sender := 1, bitrate := 0x4d800000, ssrcs := [2] }, by decide, by decide, by decide⟩

/-- non-vacuity: an unnormalised pair (mantissa 3, exponent 10: the encoder would send 3072·2^0) -/
example : ∃ q, Remb.dec (render (Spec.rembRaw 7 10 3 [1, 2])) = .ok q ∧ f32Floor q.bitrate = 3072 := by
  obtain ⟨q, h, _, _, _, hf, _⟩ := remb_dec_spec 7 10 3 [1, 2] (by decide) (by decide) (by decide) (by decide) (by decide) (by decide)
  exact ⟨q, h, hf⟩

end Rtcp.C04

namespace Rtcp.C02
open Rtcp Gen Out Spec
set_option linter.unusedSimpArgs false
set_option linter.unusedVariables false

/-- the value the theorems below talk about is C14's clamped floor of the bitrate -/
theorem remb_value_eq_clampFloor (bits : Nat) : rembValue bits = C14.clampFloor bits := Spec.rembValue_eq bits

/-- **REMB round trip**: for every well-formed value whose bitrate is at least 1 (prescribed mantissa non-zero),
Marshal succeeds; the type's own Unmarshal returns a packet with the same sender and SSRCs whose bitrate is exactly
`m·2^e`, the bitrate rounded down to 18 significant bits (`m·2^e ≤ ⌊bitrate⌋ < (m+1)·2^e`, saturating at 0x3FFFF·2^63);
the decoded packet is well-formed, marshalling it again reproduces the same octets, and rtcp.Unmarshal on the octets
returns one packet of the same Go type with the same value. -/
theorem remb_roundtrip (p : Remb) (h : p.WF) (hm : rembMant (rembValue p.bitrate) ≠ 0) :
    ∃ f q, p.enc = .ok f ∧ Remb.dec f = .ok q ∧ q.sender = p.sender ∧ q.ssrcs = p.ssrcs ∧
      f32Floor q.bitrate = rembMant (rembValue p.bitrate) * 2 ^ rembExp (rembValue p.bitrate) ∧
      rembMant (rembValue p.bitrate) * 2 ^ rembExp (rembValue p.bitrate) ≤ rembValue p.bitrate ∧
      rembValue p.bitrate < (rembMant (rembValue p.bitrate) + 1) * 2 ^ rembExp (rembValue p.bitrate) ∧
      q.WF ∧ q.enc = .ok f ∧ udec f = .ok [.remb q] ∧ q = p.quant := by
  obtain ⟨f, he, hfr, hlen, hf⟩ := Remb.framed p h
  obtain ⟨h1, h2, h3, h4, h5, h6⟩ := h
  obtain ⟨_, hm18, he63, hnorm, hlo, hhi⟩ := rembEncBitrate_spec p.bitrate h5
  have hquant : p.quant = Remb.mk p.sender (rembFloat (rembExp (rembValue p.bitrate)) (rembMant (rembValue p.bitrate))) p.ssrcs := rfl
  rw [hquant]
  generalize rembMant (rembValue p.bitrate) = m at *
  generalize rembExp (rembValue p.bitrate) = e at *
  have hm0 : 0 < m := Nat.pos_of_ne_zero hm
  obtain ⟨bits, hb, hlt, hfl, hS, hnan, hinf, _⟩ := rembDecBits_facts e m (by omega) hm0 hm18
  have hcl := rembDecBits_closed e m (by omega) hm0 hm18
  rw [hb] at hcl
  have hbits : bits = rembFloat e m := by injection hcl
  have hdec := Remb.dec_bytes p.sender e m p.ssrcs h1 (by omega) hm18 h2 h3
  rw [hb, bind_ok, ← hf] at hdec
  have hq : (Remb.mk p.sender bits p.ssrcs).WF := ⟨h1, h2, h3, hlt, hS, hnan⟩
  have hre : (Remb.mk p.sender bits p.ssrcs).enc = .ok f := by
    rw [hf]
    exact Remb.enc_ok (Remb.mk p.sender bits p.ssrcs) m e h2 (rembEnc_of_dec e m bits (by omega) hm0 hm18 hnorm hb) hm18 he63
  refine ⟨f, _, he, hdec, rfl, rfl, hfl, hlo, hhi, hq, hre, ?_, by rw [hbits]⟩
  apply RembRT.udec_single f p.header hfr
  rw [Remb.header_eq p h2]
  show decKind (dispatch 206 15) f = _
  rw [dispatch_remb]
  show (Packet.remb <$> Remb.dec f) = _
  rw [hdec]; rfl

/-- the same fact in the shape of `C02.frame_of_DWF`, ready for lists of packets: the encoding is a frame that the
datagram decoder dispatches back to the REMB decoder -/
theorem remb_frame (p : Remb) (h : p.WF) (hm : rembMant (rembValue p.bitrate) ≠ 0) :
    ∃ f hd q, (Packet.remb p).encP = .ok (f, .remb p) ∧ Framed f hd ∧
      decKind (dispatch hd.type hd.count) f = .ok (.remb q) ∧ f.length = (Packet.remb p).marshalSize ∧
      (Packet.remb q).encP = .ok (f, .remb q) ∧ q.WF := by
  obtain ⟨f, q, he, hdec, _, _, _, _, _, hq, hre, _, _⟩ := remb_roundtrip p h hm
  obtain ⟨f', he', hfr, hlen, _⟩ := Remb.framed p h
  rw [he] at he'; cases he'
  refine ⟨f, p.header, q, by simp [Packet.encP, he], hfr, ?_, hlen, by simp [Packet.encP, hre], hq⟩
  rw [Remb.header_eq p h.2.1]
  show decKind (dispatch 206 15) f = _
  rw [dispatch_remb]
  show (Packet.remb <$> Remb.dec f) = _
  rw [hdec]; rfl

theorem remb_quant_eq (p : Remb) :
    p.quant = Remb.mk p.sender (rembFloat (rembExp (rembValue p.bitrate)) (rembMant (rembValue p.bitrate))) p.ssrcs := rfl

/-- **the round trip as an equation**, with the documented quantisation `Remb.quant` (Spec/Remb.lean: bitrate rounded
down to 18 significant bits): own decoder, datagram decoder, re-marshal; the quantised packet is again in the domain
of this theorem and is a fixed point of the quantisation -/
theorem remb_roundtrip_quant (p : Remb) (h : p.WF) (hm : rembMant (rembValue p.bitrate) ≠ 0) :
    (p.enc >>= Remb.dec) = .ok p.quant ∧ (p.enc >>= udec) = .ok [.remb p.quant] ∧ p.quant.enc = p.enc ∧
      p.quant.WF ∧ rembMant (rembValue p.quant.bitrate) ≠ 0 ∧ p.quant.quant = p.quant := by
  obtain ⟨f, q, he, hdec, _, _, hfl, hlo, hhi, hq, hre, hu, hqq⟩ := remb_roundtrip p h hm
  subst hqq
  obtain ⟨_, hm18, he63, hnorm, _, _⟩ := rembEncBitrate_spec p.bitrate h.2.2.2.2.1
  -- the quantised bitrate is `m·2^e`, whose prescribed pair is `(m, e)` again
  have hm0 : 0 < rembMant (rembValue p.bitrate) := Nat.pos_of_ne_zero hm
  obtain ⟨bits, hb, _, _, _, _, _, hv⟩ := rembDecBits_facts _ _ (by omega : rembExp (rembValue p.bitrate) < 64) hm0 hm18
  have hcl := rembDecBits_closed _ _ (by omega : rembExp (rembValue p.bitrate) < 64) hm0 hm18
  rw [hb] at hcl
  have hbits : bits = p.quant.bitrate := by injection hcl
  rw [hbits] at hv
  have hpos : 0 < 2 ^ rembExp (rembValue p.bitrate) := Nat.pow_pos (by decide)
  obtain ⟨hE, hM⟩ := Spec.rembPair_unique (rembValue p.quant.bitrate) _ _ (Spec.rembValue_le _) hm18 hnorm
    (by rw [hv]; exact Nat.le_refl _) (by rw [hv, Nat.add_mul]; omega)
  refine ⟨by rw [he, bind_ok, hdec], by rw [he, bind_ok, hu], by rw [hre, he], hq, by rw [← hM]; exact hm, ?_⟩
  rw [remb_quant_eq p.quant, ← hE, ← hM, remb_quant_eq p]

/-- known finding KF-REMB-MANT0 seen from the round trip: a bitrate below 1 bit/s is sent as mantissa 0, which the
decoder turns into 2^23 -/
theorem KF_remb_zero_bitrate :
    ∃ f q, (Remb.mk 1 0 [2]).enc = .ok f ∧ Remb.dec f = .ok q ∧ rembMant (rembValue 0) = 0 ∧ f32Floor q.bitrate = 2 ^ 23 :=
  ⟨[143, 206, 0, 5, 0, 0, 0, 1, 0, 0, 0, 0, 82, 69, 77, 66, 1, 0, 0, 0, 0, 0, 0, 2],
   { sender := 1, bitrate := 0x4b000000, ssrcs := [2] }, by decide, by decide, by decide, by decide⟩

/-- non-vacuity: 8927232 bit/s = 139488·2^6 -/
example : (Remb.mk 1 0x4b083800 [2, 4294967295]).WF ∧ rembMant (rembValue 0x4b083800) = 139488 ∧ rembExp (rembValue 0x4b083800) = 6 := by
  decide
/-- non-vacuity: a value that really is quantised, 33554464 = 2^25 + 32 (pattern 0x4c000008): mantissa 131072,
exponent 8, value sent 2^25 = 0x4c000000 -/
example : (Remb.mk 1 0x4c000008 []).WF ∧ rembValue 0x4c000008 = 33554464 ∧ rembMant (rembValue 0x4c000008) = 131072 ∧
    rembExp (rembValue 0x4c000008) = 8 ∧ (Remb.mk 1 0x4c000008 []).quant = Remb.mk 1 0x4c000000 [] := by decide

end Rtcp.C02
