/-
  C04 — Unmarshal extracts the RFC-specified fields from any valid encoding.
  (1) every RFC layout of C03 decodes to its value (decode ∘ render(spec) = id on well-formed values);
  (2) encodings this library never produces: non-zero reserved bits in FIR entries, not-received RFC 8888 metric
      blocks with stray bits, unnormalised REMB mantissa/exponent pairs (C14.dec_exact), alternative TWCC chunkings
      (C13.chunking_invariant), unknown XR block types (C15.unknown_verbatim / block_roundtrip), BYE with and without
      a reason;
  (3) an SR, RR, SDES or BYE whose header count claims more elements than the packet holds is rejected.
  Known findings: REMB mantissa 0; CCFB num_reports semantics; SLI packet type 206 is not accepted by the SLI decoder.
-/
import Rtcp.Proofs.C03
import Rtcp.Proofs.C02
namespace Rtcp.C04
open Rtcp Gen Out Spec
set_option linter.unusedSimpArgs false
set_option linter.unusedVariables false

/-! ### (1) the RFC layouts decode to their values -/

theorem sr_dec_spec (v : SenderReport) (h : v.WF) : SenderReport.dec (render (Spec.sr v)) = .ok v := by
  have h1 := C03.sr_wire v h; have h2 := SenderReport.roundtrip v h; rw [h1, bind_ok] at h2; exact h2
theorem rr_dec_spec (v : ReceiverReport) (h : v.WF) : ReceiverReport.dec (render (Spec.rr v)) = .ok v.quant := by
  have h1 := C03.rr_wire v h; have h2 := ReceiverReport.roundtrip v h; rw [h1, bind_ok] at h2; exact h2
theorem sdes_dec_spec (v : SourceDescription) (h : v.WF) : SourceDescription.dec (render (Spec.sdes v)) = .ok v := by
  have h1 := C03.sdes_wire v h; have h2 := SourceDescription.roundtrip v h; rw [h1, bind_ok] at h2; exact h2
theorem bye_dec_spec (v : Goodbye) (h : v.WF) : Goodbye.dec (render (Spec.bye v)) = .ok v := by
  have h1 := C03.bye_wire v h; have h2 := Goodbye.roundtrip v h; rw [h1, bind_ok] at h2; exact h2
theorem app_dec_spec (v : ApplicationDefined) (h : v.WF) : ApplicationDefined.dec (render (Spec.app v)) = .ok v := by
  have h1 := C03.app_wire v h; have h2 := ApplicationDefined.roundtrip v h; rw [h1, bind_ok] at h2; exact h2
theorem nack_dec_spec (v : TransportLayerNack) (h : v.WF) : TransportLayerNack.dec (render (Spec.nack v)) = .ok v := by
  have h1 := C03.nack_wire v h; have h2 := TransportLayerNack.roundtrip v h; rw [h1, bind_ok] at h2; exact h2
theorem pli_dec_spec (v : PictureLossIndication) (h : v.WF) : PictureLossIndication.dec (render (Spec.pli v)) = .ok v := by
  have h1 := C03.pli_wire v h; have h2 := PictureLossIndication.roundtrip v h; rw [h1, bind_ok] at h2; exact h2
theorem rrr_dec_spec (v : RapidResync) (h : v.WF) : RapidResync.dec (render (Spec.rrr v)) = .ok v := by
  have h1 := C03.rrr_wire v h; have h2 := RapidResync.roundtrip v h; rw [h1, bind_ok] at h2; exact h2
theorem fir_dec_spec (v : FullIntraRequest) (h : v.WF) : FullIntraRequest.dec (render (Spec.fir v)) = .ok v := by
  have h1 := C03.fir_wire v h; have h2 := FullIntraRequest.roundtrip v h; rw [h1, bind_ok] at h2; exact h2

/-! ### (2) forms the library's own encoder never produces -/

/-- a not-received RFC 8888 metric block decodes to "not received" whatever its low 15 bits hold -/
theorem metric_not_received_stray_bits (hi lo : Nat) (hh : hi < 128) (hl : lo < 256) :
    CcfbMetric.dec [byte hi, byte lo] = .ok ⟨false, 0, 0⟩ := by
  simp [CcfbMetric.dec, u8At, get8, byte, Nat.mod_eq_of_lt (show hi < 256 by omega)]
  omega

/-- FIR entries: the 24 reserved bits are ignored -/
theorem fir_entry_reserved_ignored (pre post : Bytes) (ssrc sq r1 r2 r3 : Nat) (hs : ssrc < 4294967296) (hq : sq < 256) (gas : Nat) (hg : 0 < gas) :
    decFIRs (gas + 1) (pre ++ (be32 ssrc ++ [byte sq, byte r1, byte r2, byte r3] ++ post)) pre.length (pre.length + 8)
      = (decFIRs gas (pre ++ (be32 ssrc ++ [byte sq, byte r1, byte r2, byte r3] ++ post)) (pre.length + 8) (pre.length + 8) >>= fun rest =>
          .ok (⟨ssrc, sq⟩ :: rest)) := by
  rw [decFIRs, if_pos (by omega), u32At_of_le (by first | (simp; done) | (simp; omega)), u8At_of_lt (by first | (simp; done) | (simp; omega)), bind_ok, bind_ok]
  have e1 := get32_at pre ([byte sq, byte r1, byte r2, byte r3] ++ post) ssrc pre.length rfl hs
  simp only [List.append_assoc] at e1 ⊢
  rw [e1]
  have e2 : get8 (pre ++ (be32 ssrc ++ (byte sq :: byte r1 :: byte r2 :: byte r3 :: post))) (pre.length + 4) = sq := by
    have : pre ++ (be32 ssrc ++ (byte sq :: byte r1 :: byte r2 :: byte r3 :: post)) = (pre ++ be32 ssrc) ++ (byte sq :: (byte r1 :: byte r2 :: byte r3 :: post)) := by simp
    rw [this, get8_at _ _ _ _ (by simp)]
    simp; omega
  simp only [List.cons_append, List.nil_append] at e2 ⊢
  rw [e2]
  rfl

/-- BYE without a reason and BYE with a zero-length reason word both decode to an empty reason -/
theorem bye_zero_length_reason (srcs : List Nat) (h1 : srcs.length ≤ 31) (h2 : ∀ s ∈ srcs, s < 4294967296) :
    Goodbye.dec ((Header.mk false srcs.length 203 (srcs.length + 1)).bytes ++ encSSRCs srcs ++ [0, 0, 0, 0]) = .ok ⟨srcs, []⟩ := by
  unfold Goodbye.dec
  simp only [List.append_assoc]
  rw [Header.dec_bytes _ _ (by simpa using h1) (by simp) (by simp; omega), bind_ok]
  rw [if_neg (by simp)]
  have hlen : ((Header.mk false srcs.length 203 (srcs.length + 1)).bytes ++ (encSSRCs srcs ++ [0, 0, 0, 0])).length = 8 + srcs.length * 4 := by
    simp [encSSRCs_length]; omega
  rw [hlen, if_neg (by rw [getPadding_eq_zero (by omega)]; simp)]
  have hro : (headerLength + srcs.length * ssrcLength) % 256 = 4 + srcs.length * 4 := by simp only [headerLength, ssrcLength]; omega
  simp only [hro]
  rw [if_neg (by omega)]
  have hsrc := decSSRCs_bytes srcs (Header.mk false srcs.length 203 (srcs.length + 1)).bytes [0, 0, 0, 0] h2
  simp only [Header.bytes_length] at hsrc
  rw [hsrc, bind_ok, if_pos (by omega)]
  have hpre : 4 + srcs.length * 4 = ((Header.mk false srcs.length 203 (srcs.length + 1)).bytes ++ encSSRCs srcs).length := by simp [encSSRCs_length]
  have hre : (Header.mk false srcs.length 203 (srcs.length + 1)).bytes ++ (encSSRCs srcs ++ [0, 0, 0, 0])
      = ((Header.mk false srcs.length 203 (srcs.length + 1)).bytes ++ encSSRCs srcs) ++ ((0 : UInt8) :: [0, 0, 0]) := by simp
  rw [hre, u8At_of_lt (by simp [encSSRCs_length]; omega), bind_ok, get8_at _ _ _ _ hpre]
  simp only [UInt8.toNat_zero, Nat.add_zero]
  rw [if_neg (by simp [encSSRCs_length]; omega), slice_of_le (by omega) (by simp [encSSRCs_length]; omega), bind_ok]
  simp

/-! ### (3) inflated counts are rejected -/

theorem sr_count_inflated (b : Bytes) (h : b.length < 28 + 24 * (get8 b 0 % 32)) : ∀ v, SenderReport.dec b ≠ .ok v := by
  intro v e
  unfold SenderReport.dec at e
  split at e
  · cases e
  · rename_i hlen
    obtain ⟨hd, hh, e⟩ := bind_eq_ok.mp e
    have hf := Header.dec_ok_fields hh
    split at e
    · cases e
    · obtain ⟨body, hb, e⟩ := bind_eq_ok.mp e
      rw [sliceFrom_of_le (by lomega)] at hb
      simp at hb
      obtain ⟨_, _, e⟩ := bind_eq_ok.mp e
      obtain ⟨_, _, e⟩ := bind_eq_ok.mp e
      obtain ⟨_, _, e⟩ := bind_eq_ok.mp e
      obtain ⟨_, _, e⟩ := bind_eq_ok.mp e
      obtain ⟨_, _, e⟩ := bind_eq_ok.mp e
      obtain ⟨⟨reps, off⟩, hr, e⟩ := bind_eq_ok.mp e
      -- the loop needs 24 octets per announced report
      have key : ∀ n bdy o rs o', o ≤ bdy.length → srDecReports n bdy o = .ok (rs, o') → o + 24 * n ≤ bdy.length := by
        intro n
        induction n with
        | zero => intro bdy o rs o' ho hs; omega
        | succ n ih =>
          intro bdy o rs o' ho hs
          unfold srDecReports at hs
          split at hs
          · cases hs
          · rename_i hle
            simp at hle
            obtain ⟨_, _, hs⟩ := bind_eq_ok.mp hs
            obtain ⟨_, _, hs⟩ := bind_eq_ok.mp hs
            obtain ⟨⟨rs', o''⟩, hs', _⟩ := bind_eq_ok.mp hs
            have := ih bdy (o + receptionReportLength) rs' o'' (by simp only [receptionReportLength] at hle ⊢; omega) hs'
            simp only [receptionReportLength] at this
            omega
      have := key _ _ _ _ _ (by rw [← hb]; simp only [srReportOffset]; simp; lomega) hr
      rw [← hb] at this
      simp at this
      omega

theorem bye_count_inflated (b : Bytes) (h : b.length < 4 + 4 * (get8 b 0 % 32)) : ∀ v, Goodbye.dec b ≠ .ok v := by
  intro v e
  unfold Goodbye.dec at e
  obtain ⟨hd, hh, e⟩ := bind_eq_ok.mp e
  have hf := Header.dec_ok_fields hh
  split at e
  · cases e
  · split at e
    · cases e
    · dsimp only at e
      split at e
      · cases e
      · rename_i hro
        simp only [headerLength, ssrcLength] at hro
        omega

/-- SDES: the decoder accepts only if the number of chunks it found equals the header count -/
theorem sdes_count_checked (b : Bytes) (s : SourceDescription) (h : SourceDescription.dec b = .ok s) :
    s.chunks.length = get8 b 0 % 32 := by
  have ⟨hst, hv⟩ := Status.toOut_eq_ok h
  unfold SourceDescription.decP at hst hv
  cases hh : Header.dec b with
  | ok hd =>
    have hf := Header.dec_ok_fields hh
    simp only [hh] at hst hv
    split at hst
    · simp at hst
    · rename_i ht
      rw [if_neg ht] at hv
      cases hc : decChunksP (b.length + 1) (b.drop headerLength) with
      | mk cs st =>
        rw [hc] at hst hv
        dsimp only at hst hv
        cases st with
        | ok =>
          dsimp only at hst hv
          split at hst
          · simp at hst
          · rename_i hcnt
            rw [if_neg hcnt] at hv
            simp at hcnt
            rw [← hv]; simp; omega
        | err => simp at hst
        | panic => simp at hst
        | diverge => simp at hst
  | err => simp [hh, Out.status] at hst
  | panic => simp [hh, Out.status] at hst
  | diverge => simp [hh, Out.status] at hst

/-- RR: a packet that is accepted holds 24 octets for every report the header announces -/
theorem rr_count_checked (b : Bytes) (v : ReceiverReport) (h : ReceiverReport.dec b = .ok v) :
    v.reports.length = get8 b 0 % 32 ∧ 8 + 24 * v.reports.length ≤ b.length := by
  unfold ReceiverReport.dec at h
  split at h
  · cases h
  · rename_i hlen
    obtain ⟨hd, hh, h⟩ := bind_eq_ok.mp h
    have hf := Header.dec_ok_fields hh
    split at h
    · cases h
    · obtain ⟨_, _, h⟩ := bind_eq_ok.mp h
      obtain ⟨⟨reps, rest⟩, hr, h⟩ := bind_eq_ok.mp h
      have hl := rrDecReports_len hr
      have hle : ∀ n rest rs r', rrDecReports n rest = .ok (rs, r') → rs.length ≤ n := by
        intro n
        induction n with
        | zero => intro rest rs r' hs; simp [rrDecReports] at hs; simp [hs.1]
        | succ n ih =>
          intro rest rs r' hs
          unfold rrDecReports at hs
          split at hs
          · simp at hs; simp [hs.1]
          · obtain ⟨_, _, hs⟩ := bind_eq_ok.mp hs
            obtain ⟨⟨rs', r''⟩, hs', hs⟩ := bind_eq_ok.mp hs
            simp at hs
            have := ih _ _ _ hs'
            rw [← hs.1]; simp; omega
      have hcnt := hle _ _ _ _ hr
      dsimp only at h
      obtain ⟨ext, _, h⟩ := bind_eq_ok.mp h
      split at h
      · cases h
      · rename_i hc
        simp at hc h
        rw [← h]
        simp at hl ⊢
        have : reps.length < 256 := by omega
        unfold_consts
        omega

example : (Header.mk false 0 203 1).bytes ++ encSSRCs [] ++ [0, 0, 0, 0] = [0x80, 203, 0, 1, 0, 0, 0, 0] := by decide

end Rtcp.C04
