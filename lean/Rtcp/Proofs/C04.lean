import Rtcp.Lemmas.Safe6
namespace Rtcp.C04
end Rtcp.C04
