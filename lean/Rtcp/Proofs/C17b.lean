/-
  C17b — the remaining enum `String` methods of the model, over *all* values (not only the 256 of the Go types):
  each is a finite table with a default arm, so every value lands in exactly one of the listed strings or in the
  default form. (That the Go methods are these functions is the `enumstr` correspondence, run over all 256 values of
  every enum-like type on each check; a table indexed without a default arm — seeded change C17_s — breaks it.)
-/
import Rtcp.Proofs.C17
namespace Rtcp.C17
open Rtcp Rtcp.Gen
set_option linter.unusedSimpArgs false

theorem sdesType_names :
    sdesTypeString 0 = "END" ∧ sdesTypeString 1 = "CNAME" ∧ sdesTypeString 2 = "NAME" ∧ sdesTypeString 3 = "EMAIL" ∧
    sdesTypeString 4 = "PHONE" ∧ sdesTypeString 5 = "LOC" ∧ sdesTypeString 6 = "TOOL" ∧ sdesTypeString 7 = "NOTE" ∧
    sdesTypeString 8 = "PRIV" := by decide

/-- every SDES item type outside 0 … 8 takes the default arm (Go: `string(rune(s))`) -/
theorem sdesType_default (s : Nat) (h : 8 < s) : sdesTypeString s = runeString s := by
  unfold sdesTypeString
  repeat (rw [if_neg (by comega)])

/-- every packet type outside 200 … 207 takes the default arm -/
theorem packetType_default (p : Nat) (h : p < 200 ∨ 207 < p) : packetTypeString p = runeString p := by
  unfold packetTypeString
  repeat (rw [if_neg (by comega)])

theorem blockType_names :
    blockTypeString 1 = "LossRLEReportBlockType" ∧ blockTypeString 2 = "DuplicateRLEReportBlockType" ∧
    blockTypeString 3 = "PacketReceiptTimesReportBlockType" ∧ blockTypeString 4 = "ReceiverReferenceTimeReportBlockType" ∧
    blockTypeString 5 = "DLRRReportBlockType" ∧ blockTypeString 6 = "StatisticsSummaryReportBlockType" ∧
    blockTypeString 7 = "VoIPMetricsReportBlockType" := by decide

/-- block type 0 and everything above 7 is printed as "invalid value n" -/
theorem blockType_default (t : Nat) (h : t = 0 ∨ 7 < t) : blockTypeString t = s!"invalid value {t}" := by
  unfold blockTypeString
  repeat (rw [if_neg (by comega)])

/-- ToH: 0, 1, 2 are named; 3 (reserved on the wire) and every larger value of the Go uint8 print as invalid -/
theorem toh_names : tohString 0 = "[ToH Missing]" ∧ tohString 1 = "[ToH = IPv4]" ∧ tohString 2 = "[ToH = IPv6]" := by decide
theorem toh_default (t : Nat) (h : 2 < t) : tohString t = "[ToH Flag is Invalid]" := by
  unfold tohString
  repeat (rw [if_neg (by comega)])

/-- the XR chunk `String` is one of four shapes, chosen by the chunk type alone -/
theorem xrChunkType_cases (c : Nat) (hc : c < 65536) :
    xrChunkType c = TerminatingNullChunkType ∨ xrChunkType c = RunLengthChunkType ∨ xrChunkType c = BitVectorChunkType := by
  unfold xrChunkType
  split
  · simp
  · have : c / 32768 = 0 ∨ c / 32768 = 1 := by omega
    rcases this with h | h <;> simp [h]

end Rtcp.C17
