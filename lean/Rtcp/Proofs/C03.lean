import Rtcp.Lemmas.Safe6
namespace Rtcp.C03
end Rtcp.C03
