/-
  C03 — Marshal emits exactly the RFC wire layout of each packet type.
  `Spec.*` (Spec/Wire.lean) are the layouts transcribed from the RFCs as MSB-first bit-field lists, independent of the
  Go code's offsets/shifts/masks; `render` packs them. The theorems: for every well-formed value, Marshal = render(spec).
  Proved for SR, RR, SDES, BYE, APP, NACK, RRR, PLI, FIR (version 2, registered PT and count/FMT, every field at its
  offset/width/byte order, padding and reserved bits zero). XR: the struct layouts equal RFC 3611's tables
  (C15.layouts_rfc) and blocks carry type/length as specified (C15.block_header).
  Known findings: SLI is emitted with PT 205 (RFC 4585: 206) — `KF_sli_packet_type`; CCFB num_reports = n−1.
  REMB, TWCC, CCFB: by the encspec correspondence against the model encoder only.
-/
import Rtcp.Lemmas.SpecBits
import Rtcp.Lemmas.Frame
namespace Rtcp.C03
open Rtcp Gen Out Spec
set_option linter.unusedSimpArgs false
set_option linter.unusedVariables false

theorem render_cons (e : El) (es : List El) : render (e :: es) = e.render ++ render es := by simp [render]
theorem render_append (a b : List El) : render (a ++ b) = render a ++ render b := by simp [render]
theorem render_nil : render [] = [] := rfl

theorem pad4_eq (n : Nat) : pad4 n = getPadding n := by unfold pad4 getPadding; split <;> omega

theorem u32_pow {x : Nat} (h : x < 4294967296) : x < 2 ^ 32 := by simpa using h
theorem u16_pow {x : Nat} (h : x < 65536) : x < 2 ^ 16 := by simpa using h
theorem u8_pow {x : Nat} (h : x < 256) : x < 2 ^ 8 := by simpa using h
theorem u24_pow {x : Nat} (h : x < 16777216) : x < 2 ^ 24 := by simpa using h
theorem u64_pow {x : Nat} (h : x < 18446744073709551616) : x < 2 ^ 64 := by simpa using h

/-- feedback header + two SSRCs -/
theorem fb_render (fmt pt words s m : Nat) (hf : fmt < 32) (hp : pt < 256) (hw : words < 65536) (hs : s < 4294967296) (hm : m < 4294967296) :
    render (fb fmt pt words s m) = (Header.mk false fmt pt words).bytes ++ (be32 s ++ be32 m) := by
  simp only [fb, render_cons, render_nil, List.append_nil]
  rw [header_render false fmt pt words hf hp hw]
  rw [bits_aligned _ (by intro f hf'; simp at hf'; rcases hf' with h | h <;> subst h <;> exact ⟨by simp, by first | exact u32_pow hs | exact u32_pow hm⟩)]
  simp [renderAligned, beBytes4]

theorem pli_wire (v : PictureLossIndication) (h : v.WF) : v.enc = .ok (render (Spec.pli v)) := by
  obtain ⟨h1, h2⟩ := h
  simp only [u32] at h1 h2
  rw [Spec.pli, fb_render 1 206 2 _ _ (by decide) (by decide) (by decide) h1 h2]
  unfold PictureLossIndication.enc
  rw [Header.enc_ok _ (by first | decide | simp [PictureLossIndication.header, RapidResync.header])]
  rfl

theorem rrr_wire (v : RapidResync) (h : v.WF) : v.enc = .ok (render (Spec.rrr v)) := by
  obtain ⟨h1, h2⟩ := h
  simp only [u32] at h1 h2
  rw [Spec.rrr, fb_render 5 205 2 _ _ (by decide) (by decide) (by decide) h1 h2]
  unfold RapidResync.enc
  rw [Header.enc_ok _ (by first | decide | simp [PictureLossIndication.header, RapidResync.header])]
  rfl

theorem nacks_render (ns : List NackPair) (h : ∀ n ∈ ns, n.WF) :
    render (ns.map fun n => El.bits [(16, n.packetID), (16, n.lost)]) = encNacks ns := by
  induction ns with
  | nil => rfl
  | cons n ns ih =>
    have hn := h n (by simp)
    simp only [NackPair.WF, u16] at hn
    simp only [List.map_cons, render_cons, ih (fun x hx => h x (by simp [hx]))]
    rw [bits_aligned _ (by intro f hf'; simp at hf'; rcases hf' with h | h <;> subst h <;> exact ⟨by simp, by first | exact u16_pow hn.1 | exact u16_pow hn.2⟩)]
    simp [renderAligned, beBytes2, encNacks]

theorem nack_wire (v : TransportLayerNack) (h : v.WF) : v.enc = .ok (render (Spec.nack v)) := by
  obtain ⟨h1, h2, h3, h4, h5⟩ := h
  simp only [u32] at h1 h2
  rw [Spec.nack, render_append, fb_render 1 205 _ _ _ (by decide) (by decide) (by omega) h1 h2, nacks_render _ h5]
  unfold TransportLayerNack.enc
  rw [if_neg (by simp; omega), Header.enc_ok _ (by first | decide | simp [TransportLayerNack.header, FullIntraRequest.header]), bind_ok]
  have hh : v.header = Header.mk false 1 205 (2 + v.nacks.length) := by
    simp [TransportLayerNack.header, TransportLayerNack.marshalSize]; omega
  rw [hh]
  simp

theorem firs_render (es : List FIREntry) (h : ∀ e ∈ es, e.WF) :
    render (es.map fun e => El.bits [(32, e.ssrc), (8, e.seq), (24, 0)]) = encFIRs es := by
  induction es with
  | nil => rfl
  | cons e es ih =>
    have he := h e (by simp)
    simp only [FIREntry.WF, u32, u8] at he
    simp only [List.map_cons, render_cons, ih (fun x hx => h x (by simp [hx]))]
    rw [bits_aligned _ (by
      intro f hf'; simp at hf'
      rcases hf' with h | h | h <;> subst h
      · exact ⟨by simp, u32_pow he.1⟩
      · exact ⟨by simp, u8_pow he.2⟩
      · exact ⟨by simp, by simp⟩)]
    simp [renderAligned, beBytes4, beBytes1, beBytes3, be24, encFIRs, byte]

theorem fir_wire (v : FullIntraRequest) (h : v.WF) : v.enc = .ok (render (Spec.fir v)) := by
  obtain ⟨h1, h2, h3, h4, h5⟩ := h
  simp only [u32] at h1 h2
  rw [Spec.fir, render_append, fb_render 4 206 _ _ _ (by decide) (by decide) (by omega) h1 h2, firs_render _ h5]
  unfold FullIntraRequest.enc
  rw [Header.enc_ok _ (by first | decide | simp [TransportLayerNack.header, FullIntraRequest.header]), bind_ok]
  have hh : v.header = Header.mk false 4 206 (2 + 2 * v.fir.length) := by
    simp [FullIntraRequest.header, FullIntraRequest.marshalSize]; omega
  rw [hh]
  simp

/-- the library's SLI packet type is 205 where RFC 4585 §6.3 registers SLI as payload-specific feedback (206) -/
theorem KF_sli_packet_type (v : SliceLossIndication) : v.header.type = 205 ∧ (Spec.sli v).head? = some (Spec.header false 2 206 (2 + v.sli.length)) :=
  ⟨rfl, rfl⟩

theorem reports_render (rs : List ReceptionReport) (h : ∀ r ∈ rs, r.WF) :
    render (rs.map reportBlock) = reportsBytes rs := by
  induction rs with
  | nil => rfl
  | cons r rs ih =>
    obtain ⟨a1, a2, a3, a4, a5, a6, a7⟩ := h r (by simp)
    simp only [u32, u8] at a1 a2 a3 a4 a5 a6 a7
    simp only [List.map_cons, render_cons, ih (fun x hx => h x (by simp [hx])), reportBlock]
    rw [bits_aligned _ (by
      intro f hf'; simp at hf'
      rcases hf' with h | h | h | h | h | h | h <;> subst h
      · exact ⟨by simp, u32_pow a1⟩
      · exact ⟨by simp, u8_pow a2⟩
      · exact ⟨by simp, u24_pow a3⟩
      · exact ⟨by simp, u32_pow a4⟩
      · exact ⟨by simp, u32_pow a5⟩
      · exact ⟨by simp, u32_pow a6⟩
      · exact ⟨by simp, u32_pow a7⟩)]
    simp [renderAligned, beBytes4, beBytes1, beBytes3, reportsBytes, ReceptionReport.bytes]

theorem sr_wire (v : SenderReport) (h : v.WF) : v.enc = .ok (render (Spec.sr v)) := by
  rw [SenderReport.enc_ok v h]
  obtain ⟨h1, h2, h3, h4, h5, h6, h7, h8, h9⟩ := h
  simp only [u32, u64] at h1 h2 h3 h4 h5
  have hpad : getPadding v.ext.length = 0 := getPadding_eq_zero h8
  have hsz : v.marshalSize = 28 + 24 * v.reports.length + v.ext.length := by simp [SenderReport.marshalSize, hpad]; omega
  simp only [Spec.sr, render_append, render_cons, render_nil, List.append_nil, reports_render _ h7]
  rw [header_render false _ 200 _ (by omega) (by decide) (by omega)]
  rw [bits_aligned _ (by
    intro f hf'; simp at hf'
    rcases hf' with h | h | h | h | h <;> subst h
    · exact ⟨by simp, u32_pow h1⟩
    · exact ⟨by simp, u64_pow h2⟩
    · exact ⟨by simp, u32_pow h3⟩
    · exact ⟨by simp, u32_pow h4⟩
    · exact ⟨by simp, u32_pow h5⟩)]
  have hh : v.header = Header.mk false v.reports.length 200 ((28 + 24 * v.reports.length + v.ext.length) / 4 - 1) := by
    simp [SenderReport.header, hsz]; omega
  rw [hh, hpad]
  simp [renderAligned, beBytes4, beBytes8, El.render, zeros]

theorem rr_wire (v : ReceiverReport) (h : v.WF) : v.enc = .ok (render (Spec.rr v)) := by
  rw [ReceiverReport.enc_ok v h]
  obtain ⟨h1, h2, h3, h4⟩ := h
  simp only [u32] at h1
  have hp := getPadding_lt v.ext.length
  have hm := add_getPadding_mod v.ext.length
  have hsz : v.marshalSize = 8 + 24 * v.reports.length + v.ext.length + getPadding v.ext.length := by simp [ReceiverReport.marshalSize]; omega
  simp only [Spec.rr, render_append, render_cons, render_nil, List.append_nil, reports_render _ h3, pad4_eq]
  rw [header_render false _ 201 _ (by omega) (by decide) (by omega)]
  rw [bits_aligned _ (by intro f hf'; simp at hf'; subst hf'; exact ⟨by simp, u32_pow h1⟩)]
  have hh : v.header = Header.mk false v.reports.length 201 ((8 + 24 * v.reports.length + v.ext.length + getPadding v.ext.length) / 4 - 1) := by
    simp [ReceiverReport.header, hsz]; omega
  rw [hh]
  simp [renderAligned, beBytes4, El.render, zeros]

theorem app_wire (v : ApplicationDefined) (h : v.WF) : v.enc = .ok (render (Spec.app v)) := by
  obtain ⟨h1, h2, h3, h4, h5⟩ := h
  simp only [u32] at h2
  have hpad : appPadding v.data.length = 0 := by simp [appPadding]; omega
  have hsz : v.marshalSize = 12 + v.data.length := by simp [ApplicationDefined.marshalSize, hpad]
  unfold ApplicationDefined.enc
  rw [if_neg (by omega), if_neg (by omega)]
  simp only [hpad, hsz]
  rw [Header.enc_ok _ (by simpa using h1), bind_ok]
  simp only [Spec.app, render_cons, render_nil, List.append_nil]
  rw [header_render false _ 204 _ (by omega) (by decide) (by omega)]
  rw [bits_aligned _ (by intro f hf'; simp at hf'; subst hf'; exact ⟨by simp, u32_pow h2⟩)]
  have hl : ((12 + v.data.length) / 4 - 1) % 65536 = (12 + v.data.length) / 4 - 1 := by omega
  simp [renderAligned, beBytes4, El.render, hl]

theorem items_render (is : List SDESItem) (h : ∀ i ∈ is, i.WF) : render (is.flatMap sdesItem) = itemsBytes is := by
  induction is with
  | nil => rfl
  | cons i is ih =>
    obtain ⟨a1, a2, a3⟩ := h i (by simp)
    simp only [u8] at a2
    simp only [List.flatMap_cons, render_append, ih (fun x hx => h x (by simp [hx])), sdesItem, render_cons, render_nil, List.append_nil]
    rw [bits_aligned _ (by
      intro f hf'; simp at hf'
      rcases hf' with h | h <;> subst h
      · exact ⟨by simp, u8_pow a2⟩
      · exact ⟨by simp, u8_pow (by omega)⟩)]
    simp [renderAligned, beBytes1, El.render, itemsBytes, SDESItem.bytes]

theorem sdesChunkLen_eq (c : SDESChunk) : sdesChunkLen c = 4 + itemsLen c.items + 1 := by
  have key : ∀ is : List SDESItem, (is.map fun i => 2 + i.text.length).sum = itemsLen is := by
    intro is
    induction is with
    | nil => rfl
    | cons i is ih => simp [itemsLen, SDESItem.len] at ih ⊢; omega
  simp only [sdesChunkLen, key]

theorem chunks_render (cs : List SDESChunk) (h : ∀ c ∈ cs, c.WF) : render (cs.flatMap sdesChunk) = chunksBytes cs := by
  induction cs with
  | nil => rfl
  | cons c cs ih =>
    obtain ⟨a1, a2⟩ := h c (by simp)
    simp only [u32] at a1
    simp only [List.flatMap_cons, render_append, ih (fun x hx => h x (by simp [hx])), sdesChunk, render_cons, render_nil, List.append_nil,
      items_render _ a2, pad4_eq, sdesChunkLen_eq]
    rw [bits_aligned _ (by intro f hf'; simp at hf'; subst hf'; exact ⟨by simp, u32_pow a1⟩)]
    simp [renderAligned, beBytes4, El.render, chunksBytes, SDESChunk.bytes, zeros]

theorem sdes_sizes (cs : List SDESChunk) : (cs.map fun c => sdesChunkLen c + pad4 (sdesChunkLen c)).sum = chunksLen cs := by
  simp only [chunksLen]
  congr 1
  apply List.map_congr_left
  intro c _
  rw [pad4_eq, sdesChunkLen_eq]
  simp [SDESChunk.len]

theorem sdes_wire (v : SourceDescription) (h : v.WF) : v.enc = .ok (render (Spec.sdes v)) := by
  obtain ⟨h1, h2, h3⟩ := h
  have hsz : v.marshalSize = 4 + chunksLen v.chunks := by simp [SourceDescription.marshalSize]
  unfold SourceDescription.enc
  rw [encChunks_ok _ h2, bind_ok, if_neg (by simp; omega), Header.enc_ok _ (by simp [SourceDescription.header]; omega), bind_ok]
  simp only [Spec.sdes, render_append, render_cons, render_nil, List.append_nil, chunks_render _ h2, sdes_sizes]
  rw [header_render false _ 202 _ (by omega) (by decide) (by omega)]
  have hh : v.header = Header.mk false v.chunks.length 202 ((4 + chunksLen v.chunks) / 4 - 1) := by
    simp [SourceDescription.header, hsz]; omega
  rw [hh]; rfl

theorem srcs_render (l : List Nat) (h : ∀ s ∈ l, s < 4294967296) : render (l.map fun s => El.bits [(32, s)]) = encSSRCs l := by
  induction l with
  | nil => rfl
  | cons x xs ih =>
    simp only [List.map_cons, render_cons, ih (fun s hs => h s (by simp [hs]))]
    rw [bits_aligned _ (by intro f hf'; simp at hf'; subst hf'; exact ⟨by simp, u32_pow (h x (by simp))⟩)]
    simp [renderAligned, beBytes4, encSSRCs]

theorem bye_wire (v : Goodbye) (h : v.WF) : v.enc = .ok (render (Spec.bye v)) := by
  obtain ⟨srcs, reason⟩ := v
  obtain ⟨h1, h2, h3⟩ := h
  simp only [u32] at h1 h2 h3
  by_cases hr : 0 < reason.length
  · have hsz := Goodbye.size_reason srcs reason hr
    have hp := getPadding_lt (4 + srcs.length * 4 + (reason.length + 1))
    have hbody : 4 * srcs.length + (1 + reason.length) = srcs.length * 4 + (reason.length + 1) := by omega
    have hpadeq : getPadding (4 * srcs.length + (1 + reason.length)) = getPadding (4 + srcs.length * 4 + (reason.length + 1)) := by
      unfold getPadding; split <;> split <;> omega
    generalize hpd : getPadding (4 + srcs.length * 4 + (reason.length + 1)) = pad at hsz hp hpadeq
    unfold Goodbye.enc
    rw [if_neg (by simp; omega), if_neg (by simp; omega), Header.enc_ok _ (by simp [Goodbye.header]; omega), bind_ok]
    simp only [hr, if_true, pure_eq, hsz, List.length_append, encSSRCs_length, List.length_cons, List.length_nil]
    have hz : 4 + srcs.length * 4 + (reason.length + 1) + pad - headerLength - (srcs.length * 4 + (0 + 1 + reason.length)) = pad := by
      simp only [headerLength]; omega
    rw [hz]
    simp only [Spec.bye, hr, if_true, render_append, render_cons, render_nil, List.append_nil, srcs_render _ h2, pad4_eq, hpadeq]
    rw [header_render false _ 203 _ (by omega) (by decide) (by omega)]
    rw [bits_aligned _ (by intro f hf'; simp at hf'; subst hf'; exact ⟨by simp, u8_pow (by omega)⟩)]
    have hh : (Goodbye.mk srcs reason).header = Header.mk false srcs.length 203 ((4 + (4 * srcs.length + (1 + reason.length)) + pad) / 4 - 1) := by
      simp [Goodbye.header, hsz]; omega
    rw [hh]
    simp [renderAligned, beBytes1, El.render, zeros]
  · have hr0 : reason = [] := List.eq_nil_of_length_eq_zero (by omega)
    subst hr0
    have hsz := Goodbye.size_noreason srcs
    unfold Goodbye.enc
    rw [if_neg (by simp; omega), if_neg (by simp), Header.enc_ok _ (by simp [Goodbye.header]; omega), bind_ok]
    simp only [List.length_nil, Nat.lt_irrefl, if_false, pure_eq, List.append_nil, hsz, encSSRCs_length]
    have hz : 4 + srcs.length * 4 - headerLength - srcs.length * 4 = 0 := by simp only [headerLength]; omega
    rw [hz]
    have hp0 : getPadding (4 * srcs.length + 0) = 0 := getPadding_eq_zero (by omega)
    simp only [Spec.bye, List.length_nil, Nat.lt_irrefl, if_false, render_append, render_cons, render_nil, List.append_nil,
      srcs_render _ h2, pad4_eq, hp0]
    rw [header_render false _ 203 _ (by omega) (by decide) (by omega)]
    have hh : (Goodbye.mk srcs []).header = Header.mk false srcs.length 203 ((4 + (4 * srcs.length + 0) + 0) / 4 - 1) := by
      simp [Goodbye.header, hsz]; omega
    rw [hh]
    simp [El.render, zeros]

/-- version 2, registered packet type and count: the first two octets of every proved type -/
theorem first_octets (p : Bool) (c t l : Nat) (hc : c < 32) (ht : t < 256) (hl : l < 65536) :
    get8 ((Spec.header p c t l).render) 0 / 64 = 2 ∧ get8 ((Spec.header p c t l).render) 0 % 32 = c ∧
    get8 ((Spec.header p c t l).render) 1 = t := by
  rw [header_render p c t l hc ht hl]
  have h0 := get8_hdr0 ⟨p, c, t, l⟩ []
  have h1 := get8_hdr1 ⟨p, c, t, l⟩ []
  simp only [List.append_nil] at h0 h1
  rw [h0, h1]
  cases p <;> simp <;> omega

example : render (Spec.pli ⟨1, 2⟩) = [0x81, 206, 0, 2, 0, 0, 0, 1, 0, 0, 0, 2] := by decide

end Rtcp.C03
