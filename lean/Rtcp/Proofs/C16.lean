/-
  C16 — fixed-width wire units encode/decode bijectively over their whole domain.
  Every statement quantifies over the complete domain of the unit (no enumeration).
-/
import Rtcp.Lemmas.Safe6
import Rtcp.Lemmas.Bits
import Rtcp.Model.Enum
namespace Rtcp.C16
open Rtcp Gen Out
set_option linter.unusedSimpArgs false
set_option linter.unusedVariables false

/-! ### common header: 2^30 field combinations, 2^32 raw words -/

theorem header_enc_dec (p : Bool) (c t l : Nat) (hc : c ≤ 31) (ht : t < 256) (hl : l < 65536) :
    (Header.enc ⟨p, c, t, l⟩ >>= Header.dec) = .ok ⟨p, c, t, l⟩ := by
  unfold Header.enc
  simp only [show ¬ c > 31 by omega, if_false, bind_ok]
  unfold Header.dec
  simp [u8At, u16At, get8, get16, be16, byte]
  cases p <;> simp <;> (rw [if_pos (by omega)]; simp; omega)

theorem header_count_above_31_rejected (p : Bool) (c t l : Nat) (hc : 31 < c) : Header.enc ⟨p, c, t, l⟩ = .err := by
  simp [Header.enc, hc]

theorem header_short_rejected (b : Bytes) (h : b.length < 4) : Header.dec b = .err := by
  simp [Header.dec, h]

theorem header_bad_version_rejected (b : Bytes) (h : 4 ≤ b.length) (hv : get8 b 0 / 64 ≠ 2) : Header.dec b = .err := by
  unfold Header.dec
  rw [if_neg (by simp; omega), u8At_of_lt (by omega)]
  have := get8_lt b 0
  simp only [bind_ok]
  rw [if_pos (by simp; omega)]

/-- decode-then-encode is the identity on every 4-octet word with version 2 -/
theorem header_dec_enc (b0 b1 b2 b3 : UInt8) (hv : b0.toNat / 64 = 2) :
    (Header.dec [b0, b1, b2, b3] >>= Header.enc) = .ok [b0, b1, b2, b3] := by
  have h0 := b0.toNat_lt; have h1 := b1.toNat_lt; have h2 := b2.toNat_lt; have h3 := b3.toNat_lt
  simp [Header.dec, u8At, u16At, get8, get16]
  rw [if_pos (by omega)]
  simp [Header.enc]
  rw [if_neg (by omega)]
  simp only [be16, List.cons_append, List.nil_append, List.cons.injEq, byte_eq_iff, and_true, pure_eq, bind_ok, Out.ok.injEq]
  refine ⟨?_, ?_, ?_, ?_⟩
  · split <;> omega
  · omega
  · omega
  · omega

/-! ### TWCC run-length chunk: all 2^15 (symbol, run length) values and all words with T = 0 -/

theorem rl_enc (t sym run : Nat) : TwccChunk.enc (.rl t sym run) = .ok (be16 ((sym % 4) * 8192 + run % 8192)) := by
  unfold TwccChunk.enc
  rw [setNBits_eq 0 1 0 0 (by omega) (by simp)]
  simp only [bind_ok]
  rw [setNBits_eq _ 2 1 sym (by omega) (by simp)]
  simp only [bind_ok]
  rw [setNBits_eq _ 13 3 run (by omega) (by simp)]
  try simp

theorem rl_dec (hi lo : Nat) (hh : hi < 256) (hl : lo < 256) :
    rlChunkDec [byte hi, byte lo] = .ok (.rl 0 (hi / 32 % 4) ((hi % 32) * 256 + lo)) := by
  unfold rlChunkDec
  simp [u8At, get8, byte]
  rw [Nat.mod_eq_of_lt hh, Nat.mod_eq_of_lt hl, getNBits_eq hi 1 2 hh (by omega), getNBits_eq hi 3 5 hh (by omega)]
  simp; omega

theorem rl_enc_dec (sym run : Nat) (hs : sym < 4) (hr : run < 8192) :
    (TwccChunk.enc (.rl 0 sym run) >>= rlChunkDec) = .ok (.rl 0 sym run) := by
  rw [rl_enc]
  simp only [bind_ok, be16]
  have h1 : (sym % 4 * 8192 + run % 8192) / 256 < 256 := by omega
  rw [show byte (sym % 4 * 8192 + run % 8192) = byte ((sym % 4 * 8192 + run % 8192) % 256) from by
    apply UInt8.toNat_inj.mp; simp]
  rw [rl_dec _ _ h1 (Nat.mod_lt _ (by decide))]
  simp; omega

theorem rl_dec_enc (hi lo : Nat) (hh : hi < 128) (hl : lo < 256) :
    (rlChunkDec [byte hi, byte lo] >>= TwccChunk.enc) = .ok [byte hi, byte lo] := by
  rw [rl_dec hi lo (by omega) hl]
  simp only [bind_ok, rl_enc, be16, Out.ok.injEq, List.cons.injEq, and_true]
  constructor <;> (apply UInt8.toNat_inj.mp; simp; omega)

/-! ### receive deltas: all 2^8 small and 2^16 large wire values -/

theorem small_delta_dec_enc (v : Nat) (hv : v < 256) :
    (RecvDelta.dec [byte v] >>= RecvDelta.enc) = .ok [byte v] := by
  simp [RecvDelta.dec, u8At, get8, byte, RecvDelta.enc, tdiv, Nat.mod_eq_of_lt hv]
  have h1 : Int.tdiv (250 * (v : Int)) 250 = v := by
    rw [Int.mul_comm]; exact Int.mul_tdiv_cancel _ (by decide)
  omega

theorem small_delta_enc_dec (v : Nat) (hv : v < 256) :
    (RecvDelta.enc ⟨1, 250 * (v : Int)⟩ >>= RecvDelta.dec) = .ok ⟨1, 250 * (v : Int)⟩ := by
  have h1 : Int.tdiv (250 * (v : Int)) 250 = v := by
    rw [Int.mul_comm]; exact Int.mul_tdiv_cancel _ (by decide)
  simp [RecvDelta.enc, tdiv, h1]
  rw [if_pos (by omega)]
  simp [RecvDelta.dec, u8At, get8, byte, Nat.mod_eq_of_lt hv]

theorem large_delta_enc_dec (d : Int) (h1 : -32768 ≤ d) (h2 : d ≤ 32767) :
    (RecvDelta.enc ⟨2, 250 * d⟩ >>= RecvDelta.dec) = .ok ⟨2, 250 * d⟩ := by
  have ht : Int.tdiv (250 * d) 250 = d := by
    rw [Int.mul_comm]; exact Int.mul_tdiv_cancel _ (by decide)
  simp [RecvDelta.enc, tdiv, ht]
  rw [if_pos ⟨h1, h2⟩]
  simp [RecvDelta.dec, u16At, get16, get8, be16, byte, int16]
  have hw : ((d + 65536) % 65536).toNat < 65536 := by omega
  split <;> omega

/-! ### 24-bit cumulative loss inside a reception report: all 2^24 values (and every other field) -/

theorem reception_report_enc_dec (r : ReceptionReport) (h1 : r.ssrc < 4294967296) (h2 : r.fractionLost < 256)
    (h3 : r.totalLost < 16777216) (h4 : r.lastSeq < 4294967296) (h5 : r.jitter < 4294967296)
    (h6 : r.lastSR < 4294967296) (h7 : r.delay < 4294967296) :
    (r.enc >>= ReceptionReport.dec) = .ok r := by
  unfold ReceptionReport.enc
  rw [if_neg (by omega)]
  simp only [bind_ok]
  simp [ReceptionReport.dec, u32At, u8At, u24At, get32, get24, get8, be32, be24, byte]
  cases r
  simp at *
  omega

theorem total_lost_limit (r : ReceptionReport) (h : 16777216 ≤ r.totalLost) : r.enc = .err := by
  simp [ReceptionReport.enc, h]

/-! ### RFC 8888 metric block: all 2^16 values -/

theorem metric_enc (m : CcfbMetric) :
    m.enc = .ok (be16 ((if m.received then 1 else 0) * 32768 + (m.ecn % 4) * 8192 + m.ato % 8192)) := by
  unfold CcfbMetric.enc
  rw [setNBits_eq 0 1 0 _ (by omega) (by simp)]
  simp only [bind_ok]
  rw [setNBits_eq _ 2 1 m.ecn (by omega) (by cases m.received <;> simp)]
  simp only [bind_ok]
  rw [setNBits_eq _ 13 3 m.ato (by omega) (by cases m.received <;> simp <;> omega)]
  cases m.received <;> simp

theorem metric_enc_dec (ecn ato : Nat) (he : ecn < 4) (ha : ato < 8192) :
    (CcfbMetric.enc ⟨true, ecn, ato⟩ >>= CcfbMetric.dec) = .ok ⟨true, ecn, ato⟩ := by
  rw [metric_enc]
  simp [CcfbMetric.dec, u8At, u16At, get8, get16, be16, byte]
  rw [if_neg (by omega)]
  simp; omega

theorem metric_not_received_canonical :
    (CcfbMetric.enc ⟨false, 0, 0⟩ >>= CcfbMetric.dec) = .ok ⟨false, 0, 0⟩ := by decide

/-- every wire word decodes, and a received word re-encodes to itself -/
theorem metric_dec_enc (hi lo : Nat) (hh : 128 ≤ hi) (hh2 : hi < 256) (hl : lo < 256) :
    (CcfbMetric.dec [byte hi, byte lo] >>= CcfbMetric.enc) = .ok [byte hi, byte lo] := by
  simp [CcfbMetric.dec, u8At, u16At, get8, get16, byte, Nat.mod_eq_of_lt hh2, Nat.mod_eq_of_lt hl]
  rw [if_neg (by omega)]
  simp only [bind_ok, pure_eq, metric_enc, be16, Out.ok.injEq, List.cons.injEq, and_true]
  constructor <;> (apply UInt8.toNat_inj.mp; simp; omega)

/-! ### XR RLE chunk accessors: the three chunk kinds partition the 2^16 words -/

theorem xr_chunk_partition (c : Nat) (hc : c < 65536) :
    (c = 0 ∧ xrChunkType c = TerminatingNullChunkType ∧ xrChunkValue c = 0) ∨
    (0 < c ∧ c < 32768 ∧ xrChunkType c = RunLengthChunkType ∧ xrChunkRunType c = (c / 16384, false) ∧ xrChunkValue c = c % 16384
       ∧ c = (c / 16384) * 16384 + xrChunkValue c) ∨
    (32768 ≤ c ∧ xrChunkType c = BitVectorChunkType ∧ xrChunkValue c = c - 32768 ∧ (xrChunkRunType c).2 = true) := by
  by_cases h0 : c = 0
  · left; subst h0; decide
  · by_cases h1 : c < 32768
    · right; left
      have ht : xrChunkType c = 0 := by simp [xrChunkType, h0]; omega
      refine ⟨by omega, h1, ht, ?_, ?_, ?_⟩
      · simp [xrChunkRunType, ht]; omega
      · simp [xrChunkValue, ht]
      · simp [xrChunkValue, ht]; omega
    · right; right
      have ht : xrChunkType c = 1 := by simp [xrChunkType, h0]; omega
      refine ⟨by omega, ht, ?_, ?_⟩
      · simp [xrChunkValue, ht]; omega
      · simp [xrChunkRunType, ht]

/-! ### NACK pair, SLI word, FIR entry -/

theorem nack_pair_wire (id bm : Nat) (h1 : id < 65536) (h2 : bm < 65536) (post : Bytes) :
    get16 (be16 id ++ be16 bm ++ post) 0 = id ∧ get16 (be16 id ++ be16 bm ++ post) 2 = bm := by
  simp [get16, get8, be16, byte]; omega

theorem sli_word_roundtrip (e : SLIEntry) (h1 : e.first < 8192) (h2 : e.number < 8192) (h3 : e.picture < 64) :
    SLIEntry.ofWord e.word = e ∧ e.word < 4294967296 := by
  cases e
  simp [SLIEntry.ofWord, SLIEntry.word] at *
  omega

theorem sli_word_canonical (w : Nat) (hw : w < 4294967296) : (SLIEntry.ofWord w).word = w := by
  simp [SLIEntry.ofWord, SLIEntry.word]; omega

theorem fir_entry_wire (ssrc sq : Nat) (h1 : ssrc < 4294967296) (h2 : sq < 256) (post : Bytes) :
    get32 (be32 ssrc ++ [byte sq, 0, 0, 0] ++ post) 0 = ssrc ∧ get8 (be32 ssrc ++ [byte sq, 0, 0, 0] ++ post) 4 = sq := by
  simp [get32, get8, be32, byte]; omega

/-- non-vacuity: a concrete header meets the hypotheses and round-trips -/
example : (Header.enc ⟨true, 31, 207, 65535⟩ >>= Header.dec) = .ok ⟨true, 31, 207, 65535⟩ :=
  header_enc_dec true 31 207 65535 (by decide) (by decide) (by decide)

end Rtcp.C16
