import Rtcp.Basic
import Rtcp.Types
import Rtcp.XRLayout
import Rtcp.Gen.Consts
import Rtcp.Gen.Layouts
