/-
  Audit: for every theorem in namespace `Rtcp.Cxx` (and `Rtcp.KF`), the axioms it depends on, as JSON lines.
  Run with: lake env lean --run Audit.lean C01 C02 ...   (imports all proof modules)
-/
import Lean
import Rtcp.Proofs.All
open Lean Elab Command

def auditNamespace (env : Environment) (ns : Name) : CoreM (Array (Name × Array Name)) := do
  let mut out := #[]
  for (n, ci) in env.constants.toList do
    if ns.isPrefixOf n && !n.isInternal then
      match ci with
      | .thmInfo _ =>
        let s := n.toString
        let last := match n with
          | .str _ l => l
          | _ => ""
        if (s.splitOn ".eq_").length > 1 || (s.splitOn "._").length > 1 || (s.splitOn "match_").length > 1
            || (s.splitOn "proof_").length > 1 || last == "sizeOf_spec" || last == "inj" || last == "injEq"
            || last == "congr_simp" || last.startsWith "eq_" || last == "eq_def" || last == "induct" || last == "induct_unfolding"
            || last == "fun_cases" || last == "fun_cases_unfolding" then continue
        let ax ← Lean.collectAxioms n
        out := out.push (n, ax)
      | _ => pure ()
  return out

def main (args : List String) : IO UInt32 := do
  initSearchPath (← findSysroot)
  let env ← importModules #[{ module := `Rtcp.Proofs.All }] {} 0
  let mut bad : UInt32 := 0
  for a in args do
    let ns := Name.mkStr (Name.mkStr Name.anonymous "Rtcp") a
    let ctx : Core.Context := { fileName := "<audit>", fileMap := default }
    let st : Core.State := { env := env }
    let (res, _) ← (auditNamespace env ns).toIO ctx st
    let sorted := res.qsort (fun a b => a.1.toString < b.1.toString)
    for (n, ax) in sorted do
      let axs := ax.toList.map (fun a => "\"" ++ a.toString ++ "\"")
      IO.println s!"\{\"prop\":\"{a}\",\"theorem\":\"{n}\",\"axioms\":[{",".intercalate axs}]}"
      for x in ax do
        if x != ``propext && x != ``Classical.choice && x != ``Quot.sound then bad := 1
  return bad
